"""C09 — every zoom level of a multires file equals direct coarsening of its base."""
from __future__ import annotations

import itertools
import os

import h5py
import numpy as np
import pandas as pd

from harness import gen, monitor
from harness.common import drv, errclass, guarded, impl, run_check

PID = "C09"
THEOREMS = ["multseq_sorted_once", "multseq_sound", "multseq_refuses_iff", "multseq_refuses_iff_bases", "chain_to_base",
            "zoom_level_eq_direct", "zoom_levels_eq_chain", "zoom_layout", "specLevel_compose", "coarsenLevel_eq_spec",
            "expandSpec_int", "expandSpec_list", "mem_binary", "mem_nice", "preferred_bounds",
            "legacy_level_eq_direct", "legacy_levels_ok", "legacy_chunk_independent", "legacyBinsizes_get", "clog2_spec",
            "quadtreeDepth_spec", "zoomify_file", "zoomify_file_prior", "expandTokens_ok", "expandSpec_perm"]
LEVELS = {"zoomify": "top", "columns": "top", "cli": "top", "forms": "top", "sequence": "top", "mixed_dtypes": "top", "multseq": "unit", "preferred": "unit", "legacy": "top", "reuse": "top"}
DESCRIBE = {
    "zoomify": "cooler.zoomify_cooler(bases, out, resolutions, chunksize, nproc): refusal iff Lean `getMultiplierSequence` errs; "
               "`list_coolers(out)` = Lean `listing` (exactly /resolutions/<r> for r in the sorted union), `is_multires_file`; every base "
               "level = its own source (chroms, bins incl. extra columns, pixel columns, indexes, attributes); every derived level "
               "(bins, pixels, sum, nnz) = Lean `specLevel (r / b) base_b` for a supplied base b dividing r (theorem "
               "zoom_level_eq_direct); every level judged by the C02 raw monitor",
    "columns": "zoomify_cooler(columns=['count','w']): derived levels carry the extra column with the per-key sums (D25 regression)",
    "cli": "`cooler zoomify -r <spec> [-i base2]` (CliRunner) for every spelling (N, B, 4DN, <k>N, <k>B, integers, comma lists, upper "
           "case, blanks, default): produced resolutions = Lean `expandResolutionSpec` + base; levels = Lean L0; bad items exit != 0; "
           "lists of 2-3 items of mixed kinds (bare N/B, <k>N/<k>B with an explicit start, integers) in EVERY order on genomes long "
           "enough for several terms (theorems expandTokens_ok / expandSpec_perm: every item is expanded from the same current "
           "resolution whatever precedes it; the set produced does not depend on the order)",
    "forms": "the same target set handed to zoomify_cooler as a list, tuple, set, frozenset, numpy array, pandas Series, dict keys, range, "
             "generator, iter(list) and map object: the levels written (listing, layout) and their content must not depend on the form — "
             "each run vs the same Lean model",
    "sequence": "several zoomify_cooler calls in ONE process with the `dtypes` argument OMITTED: an int32-count base, then a float64-count "
                "base holding quarters (the integer model answers x4), then an int32 base again; every level of every file = direct "
                "coarsening of ITS base (Lean), stored with ITS base's value dtype — no state may leak from one call to the next",
    "mixed_dtypes": "two bases whose count dtypes differ (int32 + float64 quarters) in ONE zoomify: library with dtypes={} and with a partial "
                    "dict ({'w': float64}, columns count+w), bases in both orders, and `cooler zoomify -r ... --field count -i B -o out A` "
                    "in both orders; every level = the Lean level of ITS base: values (x4 for the float base), stored dtype kind, `sum` "
                    "(D27 regression: the dtype inferred for one base must not be applied to levels derived from the other)",
    "legacy": "the legacy quad-tree producer (`cooler._reduce.legacy_zoomify`, `cooler zoomify --legacy`): depth = Lean `quadtreeDepth` "
              "(least d with 2^d tiles covering the genome; theorem quadtreeDepth_spec), levels ::n (faithful copy of the base) ... ::0, "
              "every level k steps below the base = Lean `specLevel (2^k) base` whatever chain of factor-2 steps produced it (theorem "
              "legacy_level_eq_direct), every level judged by the C02 raw monitor, root attributes max-zoom(s) and level -> bin size = "
              "Lean `legacyBinsizes`; run with the real tile dimension 256 (bases of 260-1100 bins) and with the module constant "
              "HIGLASS_TILE_DIM set to 1-4 (small bases, depths up to 4)",
    "reuse": "2-4 runs (zoomify_cooler, `cooler zoomify -r`, legacy_zoomify) writing ONE output path, which may already hold a "
             "single-resolution cooler or a legacy quad-tree: each run has its own bases (the same again, or another width / genome) and "
             "its own ladder (the same, a strict part, another one, one that is refused); after every accepted run list_coolers, the "
             "layout, is_multires_file and every level = what that run ALONE produces (Lean `zoomifyFile prior ...` = `zoomEntries`, "
             "theorems zoomify_file / zoomify_file_prior: the first base is copied into a truncated file) — nothing of an earlier run "
             "survives",
    "multseq": "get_multiplier_sequence(resolutions, bases): raises iff Lean says so (some non-base member has no smaller member "
               "dividing it, equivalently is not a multiple of any base: theorems multseq_refuses_iff / _bases); otherwise its output "
               "satisfies the Lean contract `validMultSeq` and `resn` is the sorted union",
    "preferred": "cooler._reduce.preferred_sequence(start, stop, style) vs Lean `preferredSequence`",
}
RULE = ("bases of width 1-3 over 1-2 chromosomes (<= 14 bins, short last bins) and variable-width bases (named resolution 1); target sets "
        "= subsets of size <= 3 of the multiples <= 12*base (quick: seeded sample of ~60; thorough: all 299) in shuffled order, with "
        "and without the base, with a non-derivable member (must raise); 1, 2 and 3 base URIs with INDEPENDENT data (a base that is "
        "a multiple of another base must stay a copy of its own source: D19; two bases: D9); chunksize 1..nnz+1, nproc 1 (quick) / "
        "1-2 (thorough); bin sizes of ANY magnitude (quick 24 / thorough 160 cases): base width 1-12, 13-400, {1,2,5}x10^k (k<=5) or 2^k "
        "(k<=14), 4-10 targets = width x multipliers 2..400 (some multiples of one another), 2-4 coarse bins per chromosome at the "
        "coarsest level, sparse pixels placed on the first/last base bin of coarse bins; cli lists: 3 (thorough 10) long genomes x 3-4 "
        "item sets x all orders; reuse: 3 corpus + 20 (thorough 120) histories of 2-4 runs on one path; legacy: every other case with a "
        "base width of any magnitude; forms: 11 presentations of one target set; sequence: int32 -> float64 (quarters) -> int32 calls in one process, "
        "dtypes omitted; mixed_dtypes: int32 base + float64 (quarters) base of coprime widths, explicit dtypes dicts and the CLI; multseq: ALL resolution sets within {1..24} of size <= 3 x bases None / subsets of resolutions+{1,2,3} (quick: "
        "size <= 2; thorough: all); non-trivial = >= 2 levels and >= 2 pixels; distinct by canonical JSON")
EXHAUSTIVE = {"quick": False, "thorough": True}
TRUSTED = ["h5py Group.copy / attrs.update / file modes and natsort are primitives of the model",
           "coarsen_cooler is modelled by Model/Coarsen.lean (property C08)",
           "click option parsing; the CLI's float `ceil(genome_length / 256)` idealised as integer ceil-division"]
ASSUMPTIONS = ["resolutions are positive integers; base coolers are valid (C02) and, when several are given, have distinct resolutions",
               "integer counts, aggregation 'sum'"]
CHUNK = 1


def worker_init():
    global cooler
    import cooler  # noqa


# ----------------------------------------------------------------------------------------------
# helpers
# ----------------------------------------------------------------------------------------------

def _tag():
    return f"{os.getpid()}"


def _unlink(*paths):
    for p in paths:
        if p and os.path.exists(p):
            os.unlink(p)


def _read(uri):
    c = cooler.Cooler(uri)
    t = c.pixels()[:]
    names = list(c.chromnames)
    px = [[int(a), int(b), int(v)] for a, b, v in zip(t["bin1_id"], t["bin2_id"], t["count"])]
    return gen.df_bins(c.bins()[["chrom", "start", "end"]][:], names), px, c.info


def _h5_dump(path, group):
    """everything a faithful copy must carry"""
    out = {}
    with h5py.File(path, "r") as f:
        g = f[group]
        for sub in ("chroms", "bins", "pixels", "indexes"):
            for k in sorted(g[sub].keys()):
                a = g[sub][k][:]
                out[f"{sub}/{k}"] = (str(a.dtype), a.tolist() if a.dtype.kind != "S" else [x.decode() for x in a])
        for k, v in sorted(g.attrs.items()):
            out[f"@{k}"] = v.tolist() if hasattr(v, "tolist") else v
    return out


def _base_res(b):
    """`1 if clr.binsize is None else clr.binsize`, the bin size being what Lean's `getBinsize` infers from the table"""
    if "res" not in b:
        bs = drv().ask("C20.bininfo", bins=b["bins"])["binsize"]
        b["res"] = 1 if bs is None else bs
        assert b.get("variable") or b["res"] == b["width"], "generator: base table does not have the intended bin size"
    return b["res"]


def _write_bases(case, d, tag):
    paths = []
    for i, b in enumerate(case["bases"]):
        p = os.path.join(d, f"z-{tag}-b{i}.cool")
        kw = {}
        if b.get("weight"):
            bd = gen.bins_df(b["bins"])
            bd["weight"] = np.linspace(0.5, 1.5, len(bd))
            cooler.create_cooler(p, bd, gen.pixels_df(b["pixels"]), symmetric_upper=b.get("symm", True), ordered=True)
        else:
            gen.write_cooler(p, b["bins"], b["pixels"], symm=b.get("symm", True), **kw)
        paths.append(p)
    return paths


def _compare_level(uri, want, where):
    gb, gp, info = _read(uri)
    if gb != want["bins"]:
        return dict(where, what="bin table", impl=gb, model=want["bins"])
    if gp != want["pixels"]:
        return dict(where, what="pixel table", impl=gp, model=want["pixels"])
    if int(info["sum"]) != want["total"] or int(info["nnz"]) != len(want["pixels"]):
        return dict(where, what="sum/nnz attributes", impl=[int(info["sum"]), int(info["nnz"])], model=[want["total"], len(want["pixels"])])
    return None


def _check_output(case, out, paths, m):
    """`out` was produced without error and the model says `m` (ok branch)"""
    bases = case["bases"]
    listing = impl(cooler.fileops.list_coolers, out)
    if listing != m["listing"]:
        return {"mismatch": True, "what": "list_coolers", "impl": listing, "model": m["listing"]}
    if not impl(cooler.fileops.is_multires_file, out):
        return {"mismatch": True, "what": "is_multires_file is False"}
    with h5py.File(out, "r") as f:
        if sorted(f.keys()) != ["resolutions"] or sorted(f["resolutions"].keys(), key=int) != [str(r) for r in m["resn"]]:
            return {"mismatch": True, "what": "layout", "impl": {k: sorted(f[k].keys()) for k in f.keys()}, "model": m["resn"]}
    by_res = {}
    for b, p in zip(bases, paths):
        by_res[_base_res(b)] = (b, p)          # a later base of the same resolution replaces an earlier one
    for i, r in enumerate(m["resn"]):
        uri = f"{out}::resolutions/{r}"
        v = monitor.violations(out, f"resolutions/{r}")
        if v:
            return {"mismatch": True, "resolution": r, "what": "schema (C02 monitor)", "violated": v}
        if r in by_res:
            b, p = by_res[r]
            src, dst = _h5_dump(p, "/"), _h5_dump(out, f"resolutions/{r}")
            if src != dst:
                diff = sorted(k for k in set(src) | set(dst) if src.get(k) != dst.get(k))
                return {"mismatch": True, "resolution": r, "what": "base level is not a faithful copy of its source", "differs": diff,
                        "source": {k: src.get(k) for k in diff[:4]}, "copy": {k: dst.get(k) for k in diff[:4]}}
            continue
        # derived level: coarsening of a supplied base b | r by r / b
        cands = []
        for br, (b, _) in sorted(by_res.items()):
            if br < r and r % br == 0:
                cands.append((br, drv().ask("C09.level", bins=b["bins"], pixels=b["pixels"], m=r // br)))
        lean = m["levels"][i]
        assert lean is not None and any(lean == c for _, c in cands), "Lean's chain level is not a direct coarsening of a base"
        res = [_compare_level(uri, c, {"resolution": r, "from_base": br}) for br, c in cands]
        if all(res):
            first = dict(res[[br for br, _ in cands].index(m["derived_from"][i])])
            first["mismatch"] = True
            first["note"] = "level is not the coarsening of any supplied base by the ratio of resolutions"
            return first
    return None


# ----------------------------------------------------------------------------------------------
# checks
# ----------------------------------------------------------------------------------------------

def _zoomify(case):
    d = gen.tmpdir()
    tag = _tag()
    out = os.path.join(d, f"z-{tag}-out.mcool")
    paths = []
    try:
        paths = _write_bases(case, d, tag)
        order = case.get("uri_order") or list(range(len(paths)))
        uris = [paths[i] for i in order]
        lean_bases = [{"res": _base_res(case["bases"][i]), "bins": case["bases"][i]["bins"], "pixels": case["bases"][i]["pixels"]}
                      for i in order]
        m = drv().ask("C09.zoomify", bases=lean_bases, resolutions=case["resolutions"], chunksize=case["chunksize"])
        assert m["bases_ok"], "generator produced a base outside the theorems' hypotheses"
        arg = uris[0] if (len(uris) == 1 and case.get("single_str")) else uris
        r = guarded(cooler.zoomify_cooler, arg, out, list(case["resolutions"]), case["chunksize"], nproc=case.get("nproc", 1))
        if "err" in m:
            if r[0] == "ok":
                return {"mismatch": True, "what": "a resolution that is not a multiple of any base was not refused",
                        "impl": sorted(cooler.fileops.list_coolers(out)) if os.path.exists(out) else None}
            if r[1] != m["err"]:
                return {"mismatch": True, "what": "refusal", "impl": r[1], "model": m["err"]}
            return {"stats": {"refused": 1}}
        if r[0] == "err":
            # re-raise through impl() for attribution
            impl(cooler.zoomify_cooler, arg, out, list(case["resolutions"]), case["chunksize"], nproc=case.get("nproc", 1))
        mo = m["ok"]
        assert mo["l1_agrees"] and mo["multseq_valid"], "theorem zoom_level_eq_direct / multseq_sound contradicted"
        res = _check_output(dict(case, bases=[case["bases"][i] for i in order]), out, uris, mo)
        if res:
            return res
        return {"stats": {"levels": len(mo["resn"]), "derived": sum(1 for x in mo["multseq"]["pred"] if x is not None)}}
    finally:
        _unlink(out, *paths)


def _columns(case):
    """derived levels carry a requested extra value column (D25 regression through zoomify_cooler)"""
    d = gen.tmpdir()
    tag = _tag()
    src = os.path.join(d, f"zc-{tag}-src.cool")
    out = os.path.join(d, f"zc-{tag}-out.mcool")
    b = case["bases"][0]
    try:
        px = b["pixels"]
        w = [float(v % 5 + 1) for _, _, v in px]
        gen.write_cooler(src, b["bins"], px, extra={"w": w}, columns=["count", "w"], dtypes={"w": "float64"})
        impl(cooler.zoomify_cooler, src, out, list(case["resolutions"]), case["chunksize"], columns=["count", "w"])
        base = _base_res(b)
        for r in sorted(set(case["resolutions"]) | {base}):
            t = cooler.Cooler(f"{out}::resolutions/{r}").pixels()[:]
            if "w" not in t.columns:
                return {"mismatch": True, "resolution": r, "what": "requested value column missing from the level",
                        "columns": list(map(str, t.columns))}
            if r == base:
                continue
            lv = drv().ask("C09.level", bins=b["bins"], pixels=px, m=r // base)
            lw = drv().ask("C09.level", bins=b["bins"], pixels=[[i, j, int(x)] for (i, j, _), x in zip(px, w)], m=r // base)
            got = [[int(a), int(c), int(v)] for a, c, v in zip(t["bin1_id"], t["bin2_id"], t["count"])]
            gotw = [[int(a), int(c), int(round(float(x)))] for a, c, x in zip(t["bin1_id"], t["bin2_id"], t["w"])]
            if got != lv["pixels"]:
                return {"mismatch": True, "resolution": r, "what": "count column", "impl": got, "model": lv["pixels"]}
            if gotw != lw["pixels"]:
                return {"mismatch": True, "resolution": r, "what": "w column", "impl": gotw, "model": lw["pixels"]}
        return None
    finally:
        _unlink(src, out)


def _cli(case):
    from click.testing import CliRunner
    from cooler.cli import cli
    d = gen.tmpdir()
    tag = _tag()
    out = os.path.join(d, f"zl-{tag}-out.mcool")
    paths = []
    try:
        paths = _write_bases(case, d, tag)
        b0 = case["bases"][0]
        lens = {}
        for c, _, e in b0["bins"]:
            lens[c] = max(lens.get(c, 0), e)
        glen = sum(lens.values())
        curres = _base_res(b0)
        # variable-width: the CLI divides the genome length by the mean fragment size, i.e. uses the number of bins
        ex = drv().ask("C09.expand", spec=case["spec"] if case["spec"] is not None else "b", curres=curres,
                       genome_length=(len(b0["bins"]) if b0.get("variable") else glen))
        args = ["zoomify", "-c", str(case["chunksize"]), "-o", out]
        if case["spec"] is not None:
            args += ["-r", case["spec"]]
        for p in paths[1:]:
            args += ["-i", p]
        args.append(paths[0])
        r = CliRunner().invoke(cli, args)
        if "err" in ex["model"]:
            if r.exit_code == 0:
                return {"mismatch": True, "what": "malformed resolution item accepted", "spec": case["spec"]}
            return {"stats": {"bad_spec": 1}}
        resolutions = ex["model"]["ok"]
        lean_bases = [{"res": _base_res(b), "bins": b["bins"], "pixels": b["pixels"]} for b in case["bases"]]
        m = drv().ask("C09.zoomify", bases=lean_bases, resolutions=resolutions, chunksize=case["chunksize"])
        if "err" in m:
            if r.exit_code == 0:
                return {"mismatch": True, "what": "underivable resolution not refused", "spec": case["spec"], "expanded": resolutions}
            return {"stats": {"refused": 1}}
        if r.exit_code != 0:
            return {"mismatch": True, "what": "cooler zoomify failed", "spec": case["spec"], "expanded": resolutions,
                    "exception": repr(r.exception)[:300], "output": (r.output or "")[-200:]}
        mo = m["ok"]
        assert mo["l1_agrees"] and mo["multseq_valid"]
        got = sorted(int(x.split("/")[-1]) for x in cooler.fileops.list_coolers(out))
        want = sorted(set(resolutions) | {_base_res(b) for b in case["bases"]})
        if got != want:
            return {"mismatch": True, "what": "set of produced resolutions", "spec": case["spec"], "impl": got, "model": want,
                    "maxres": ex["maxres"]}
        return _check_output(case, out, paths, mo)
    finally:
        _unlink(out, *paths)


def _multseq(case):
    from cooler._reduce import get_multiplier_sequence
    res = case["resolutions"]
    n = 0
    for bases in case["bases_list"]:
        r = guarded(get_multiplier_sequence, list(res), None if bases is None else list(bases))
        implj = None
        if r[0] == "ok":
            resn, pred, mult = r[1]
            implj = {"resn": [int(x) for x in resn], "pred": [None if int(p) < 0 else int(p) for p in pred],
                     "mult": [None if int(p) < 0 else int(x) for p, x in zip(pred, mult)]}
            if any(x is not None and x < 0 for x in implj["mult"]):
                return {"mismatch": True, "resolutions": res, "bases": bases, "impl": implj, "note": "negative multiplier"}
        m = drv().ask("C09.multseq", resolutions=res, bases=bases, impl=implj)
        n += 1
        model_err = "err" in m["model"]
        # theorems multseq_refuses_iff / multseq_refuses_iff_bases / multseq_sound, re-evaluated
        if bases is not None or res:      # (bases=None with no resolution at all: `min([])` raises)
            assert model_err == bool(m["underivable"]) == bool(m["not_multiple_of_base"]), "refusal theorems contradicted"
        assert model_err or m["model_valid"], "theorem multseq_sound contradicted"
        if model_err != (r[0] == "err"):
            return {"mismatch": True, "resolutions": res, "bases": bases, "impl": "raised " + r[1] if r[0] == "err" else implj,
                    "model": m["model"], "underivable": m["underivable"],
                    "note": "refused iff some non-base resolution is not an integer multiple of a base"}
        if r[0] == "err":
            if r[1] != m["model"]["err"]:
                return {"mismatch": True, "resolutions": res, "bases": bases, "impl": r[1], "model": m["model"]["err"]}
            continue
        if not (m["impl"]["valid"] and m["impl"]["resn_is_sorted_union"]):
            return {"mismatch": True, "resolutions": res, "bases": bases, "impl": implj, "model": m["model"], "contract": m["impl"],
                    "note": "output violates validMultSeq (each non-base level needs an earlier predecessor with resn[pred]*mult = resn) "
                            "or resn is not the sorted union"}
    return {"stats": {"calls": n}}


def _preferred(case):
    from cooler._reduce import preferred_sequence
    for start, stop in case["pairs"]:
        for style in ("binary", "nice"):
            got = [int(x) for x in impl(preferred_sequence, start, stop, style)]
            m = drv().ask("C09.preferred", start=start, stop=stop, style=style)["model"]
            if got != m:
                return {"mismatch": True, "start": start, "stop": stop, "style": style, "impl": got, "model": m}
    return None



# ----------------------------------------------------------------------------------------------
# presentation of the arguments; sequences of calls in one process
# ----------------------------------------------------------------------------------------------

FORMS = {
    "list": lambda r: list(r),
    "tuple": lambda r: tuple(r),
    "set": lambda r: set(r),
    "frozenset": lambda r: frozenset(r),
    "ndarray": lambda r: np.array(list(r), dtype=np.int64),
    "series": lambda r: pd.Series(list(r), dtype=np.int64),
    "dict_keys": lambda r: {x: None for x in r}.keys(),
    "generator": lambda r: (x for x in list(r)),
    "iter": lambda r: iter(list(r)),
    "map": lambda r: map(int, [str(x) for x in r]),
}


def _forms(case):
    """the set of levels written and their content do not depend on how `resolutions` is presented"""
    d = gen.tmpdir()
    tag = _tag()
    out = os.path.join(d, f"zf-{tag}-out.mcool")
    paths = []
    try:
        paths = _write_bases(case, d, tag)
        res = list(case["resolutions"])
        lean_bases = [{"res": _base_res(b), "bins": b["bins"], "pixels": b["pixels"]} for b in case["bases"]]
        m = drv().ask("C09.zoomify", bases=lean_bases, resolutions=res, chunksize=case["chunksize"])
        assert m["bases_ok"] and "ok" in m, "generator: forms cases use derivable targets over valid bases"
        mo = m["ok"]
        assert mo["l1_agrees"] and mo["multseq_valid"], "theorem zoom_level_eq_direct / multseq_sound contradicted"
        forms = dict(FORMS)
        if len(res) >= 2 and sorted(res) == list(range(min(res), max(res) + 1, sorted(res)[1] - sorted(res)[0])):
            forms["range"] = lambda r: range(min(r), max(r) + 1, sorted(r)[1] - sorted(r)[0])
        for name in case.get("forms") or sorted(forms):
            if name not in forms:
                continue
            _unlink(out)
            try:
                impl(cooler.zoomify_cooler, list(paths), out, forms[name](res), case["chunksize"])
                r = _check_output(case, out, paths, mo)
            except Exception as e:          # attribute the failure to the presentation that caused it
                if type(e).__name__ != "ImplRaised":
                    raise
                return {"mismatch": True, "form": name, "impl_raised": e.cls, "message": e.msg, "where": e.where,
                        "note": "zoomify_cooler raised for an equally valid presentation of the target resolutions"}
            if r:
                return dict(r, form=name, note="the result depends on how the target resolutions are presented "
                                               f"({name}); the list form is the reference")
        return {"stats": {"forms": len(forms)}}
    finally:
        _unlink(out, *paths)


def _write_float_base(path, b):
    """count column float64 holding quarters: stored value = numerator / 4"""
    px = b["pixels"]
    df = pd.DataFrame({"bin1_id": np.array([p[0] for p in px], dtype=np.int64), "bin2_id": np.array([p[1] for p in px], dtype=np.int64),
                       "count": np.array([p[2] / 4.0 for p in px], dtype=np.float64)})
    cooler.create_cooler(path, gen.bins_df(b["bins"]), df, dtypes={"count": np.float64}, symmetric_upper=b.get("symm", True), ordered=True)


def _check_levels_dtype(out, b, resolutions, chunksize, scale, dtype_kind, step):
    """every level of `out` = Lean's level of base `b` (values x `scale` are the integers of the model) with the base's dtype"""
    m = drv().ask("C09.zoomify", bases=[{"res": _base_res(b), "bins": b["bins"], "pixels": b["pixels"]}],
                  resolutions=list(resolutions), chunksize=chunksize)
    assert m["bases_ok"] and "ok" in m, "generator: sequence cases use derivable targets over valid bases"
    mo = m["ok"]
    assert mo["l1_agrees"] and mo["multseq_valid"], "theorem zoom_level_eq_direct / multseq_sound contradicted"
    listing = impl(cooler.fileops.list_coolers, out)
    if listing != mo["listing"]:
        return {"mismatch": True, "call": step, "what": "list_coolers", "impl": listing, "model": mo["listing"]}
    for i, r in enumerate(mo["resn"]):
        uri = f"{out}::resolutions/{r}"
        want = mo["levels"][i]
        c = cooler.Cooler(uri)
        t = c.pixels()[:]
        with h5py.File(out, "r") as f:
            dt = f[f"resolutions/{r}/pixels/count"].dtype
        if dt.kind != dtype_kind:
            return {"mismatch": True, "call": step, "resolution": r, "what": "value dtype of the level differs from its base's",
                    "impl": str(dt), "base_kind": dtype_kind}
        vals = [float(v) * scale for v in t["count"]]
        if any(v != int(v) for v in vals):
            return {"mismatch": True, "call": step, "resolution": r, "what": "stored values are not sums of the base's values",
                    "impl": [float(v) for v in t["count"]][:12]}
        got = [[int(a), int(b_), int(v)] for a, b_, v in zip(t["bin1_id"], t["bin2_id"], vals)]
        gb = gen.df_bins(c.bins()[["chrom", "start", "end"]][:], list(c.chromnames))
        if gb != want["bins"]:
            return {"mismatch": True, "call": step, "resolution": r, "what": "bin table", "impl": gb, "model": want["bins"]}
        if got != want["pixels"]:
            return {"mismatch": True, "call": step, "resolution": r, "what": f"pixel table (values x{scale})", "dtype": str(dt),
                    "impl": got, "model": want["pixels"]}
        if float(c.info["sum"]) * scale != want["total"] or int(c.info["nnz"]) != len(want["pixels"]):
            return {"mismatch": True, "call": step, "resolution": r, "what": "sum/nnz attributes", "impl": [float(c.info["sum"]), int(c.info["nnz"])],
                    "model": [want["total"] / scale, len(want["pixels"])]}
        v = [x for x in monitor.violations(out, f"resolutions/{r}") if scale == 1 or "sum" not in x]
        if v:
            return {"mismatch": True, "call": step, "resolution": r, "what": "schema (C02 monitor)", "violated": v}
    return None


def _sequence(case):
    """calls in one process, `dtypes` omitted: what one call does must not depend on the calls made before it"""
    d = gen.tmpdir()
    tag = _tag()
    paths, outs = [], []
    try:
        for k, step in enumerate(case["steps"]):
            b = step["base"]
            p = os.path.join(d, f"zs-{tag}-b{k}.cool")
            o = os.path.join(d, f"zs-{tag}-o{k}.mcool")
            paths.append(p)
            outs.append(o)
            if step["kind"] == "float":
                _write_float_base(p, b)
            else:
                gen.write_cooler(p, b["bins"], b["pixels"], symm=b.get("symm", True))
            # `dtypes` (and `columns`, `agg`) are OMITTED on purpose
            impl(cooler.zoomify_cooler, p, o, list(step["resolutions"]), case["chunksize"])
            r = _check_levels_dtype(o, b, step["resolutions"], case["chunksize"], 4 if step["kind"] == "float" else 1,
                                    "f" if step["kind"] == "float" else "i", f"{k} ({step['kind']})")
            if r:
                r["note"] = ("a level does not equal the coarsening of its own base after earlier zoomify_cooler calls in the same "
                             "process (calls so far: " + ", ".join(s_["kind"] for s_ in case["steps"][:k + 1]) + ")")
                return r
        return None
    finally:
        _unlink(*paths, *outs)



def _write_mixed_base(path, b, with_w):
    """int32 counts, or float64 counts holding quarters (stored value = numerator / 4); optional integer column w"""
    px = b["pixels"]
    flt = b["kind"] == "float"
    d = {"bin1_id": np.array([p[0] for p in px], dtype=np.int64), "bin2_id": np.array([p[1] for p in px], dtype=np.int64),
         "count": np.array([p[2] / 4.0 for p in px], dtype=np.float64) if flt else np.array([p[2] for p in px], dtype=np.int32)}
    kw = {"dtypes": {"count": np.float64 if flt else np.int32}}
    if with_w:
        d["w"] = np.array(b["w"], dtype=np.int64)
        kw = {"dtypes": {"count": np.float64 if flt else np.int32, "w": np.int64}, "columns": ["count", "w"]}
    cooler.create_cooler(path, gen.bins_df(b["bins"]), pd.DataFrame(d), symmetric_upper=True, ordered=True, **kw)


def _mixed_level(out, r, bases, with_w, where):
    """level r of `out` must be the Lean level of one of the bases dividing r: values, stored dtype kind, sum"""
    c = cooler.Cooler(f"{out}::resolutions/{r}")
    t = c.pixels()[:]
    gb = gen.df_bins(c.bins()[["chrom", "start", "end"]][:], list(c.chromnames))
    with h5py.File(out, "r") as f:
        g = f[f"resolutions/{r}/pixels"]
        kind = g["count"].dtype.kind
        wkind = g["w"].dtype.kind if "w" in g else None
    cnt = [float(v) for v in t["count"]]
    ids = [[int(a), int(b_)] for a, b_ in zip(t["bin1_id"], t["bin2_id"])]
    fails = []
    for b in bases:
        br = _base_res(b)
        if r % br:
            continue
        scale, wantkind = (4, "f") if b["kind"] == "float" else (1, "i")
        lv = drv().ask("C09.level", bins=b["bins"], pixels=b["pixels"], m=r // br) if r != br else \
            {"bins": b["bins"], "pixels": b["pixels"], "total": sum(p[2] for p in b["pixels"])}
        got = [[i, j, v * scale] for (i, j), v in zip(ids, cnt)]
        why = None
        if gb != lv["bins"]:
            why = {"what": "bin table", "impl": gb, "model": lv["bins"]}
        elif got != [[i, j, float(v)] for i, j, v in lv["pixels"]]:
            why = {"what": f"count column (x{scale})", "impl": got, "model": lv["pixels"], "stored_dtype_kind": kind}
        elif kind != wantkind:
            why = {"what": "stored dtype kind of the count column differs from its base's", "impl": kind, "base": wantkind}
        elif float(c.info["sum"]) * scale != lv["total"] or int(c.info["nnz"]) != len(lv["pixels"]):
            why = {"what": "sum/nnz attributes", "impl": [float(c.info["sum"]), int(c.info["nnz"])], "model": [lv["total"] / scale, len(lv["pixels"])]}
        elif with_w:
            if "w" not in t.columns:
                why = {"what": "requested value column w missing"}
            else:
                lw = drv().ask("C09.level", bins=b["bins"], pixels=[[i, j, x] for (i, j, _), x in zip(b["pixels"], b["w"])], m=r // br) \
                    if r != br else {"pixels": [[i, j, x] for (i, j, _), x in zip(b["pixels"], b["w"])]}
                gw = [[i, j, float(x)] for (i, j), x in zip(ids, t["w"])]
                if gw != [[i, j, float(x)] for i, j, x in lw["pixels"]]:
                    why = {"what": "w column", "impl": gw, "model": lw["pixels"]}
                elif r != br and wkind != "f":
                    why = {"what": "w column not stored with the requested dtype float64", "impl": wkind}
        if why is None:
            return None
        fails.append(dict(why, from_base=br, base_kind=b["kind"]))
    first = dict(where, mismatch=True, resolution=r, **fails[0]) if fails else dict(where, mismatch=True, resolution=r, what="no base divides the level")
    first["note"] = "the level is not the coarsening of any supplied base with that base's values, value dtype and sum"
    if len(fails) > 1:
        first["other_candidates"] = [{k: v for k, v in x.items() if k in ("what", "from_base")} for x in fails[1:]]
    return first


def _mixed_dtypes(case):
    """D27 regression: one zoomify over two bases whose count dtypes differ, explicit dtypes dicts / the CLI"""
    from click.testing import CliRunner
    from cooler.cli import cli
    d = gen.tmpdir()
    tag = _tag()
    bases = case["bases"]
    res = list(case["resolutions"])
    want_listing = None
    paths, out = [], os.path.join(d, f"zm-{tag}-out.mcool")
    try:
        for with_w in (False, True):
            _unlink(*paths)
            paths = []
            for k, b in enumerate(bases):
                p = os.path.join(d, f"zm-{tag}-b{k}{'w' if with_w else ''}.cool")
                _write_mixed_base(p, b, with_w)
                paths.append(p)
            for b in bases:
                b.pop("res", None)
            resn = sorted(set(res) | {_base_res(b) for b in bases})
            m = drv().ask("C09.multseq", resolutions=res, bases=sorted({_base_res(b) for b in bases}), impl=None)
            assert "ok" in m["model"] and m["model"]["ok"]["resn"] == resn, "generator: mixed_dtypes cases use derivable targets"
            want_listing = [f"/resolutions/{r}" for r in resn]
            variants = []
            for order in ([0, 1], [1, 0]):
                if with_w:
                    variants.append((f"library dtypes={{'w': float64}} columns=[count, w] order={order}", order,
                                     {"dtypes": {"w": np.float64}, "columns": ["count", "w"]}, None))
                else:
                    variants.append((f"library dtypes={{}} order={order}", order, {"dtypes": {}}, None))
                    variants.append((f"cli --field count order={order}", order, None,
                                     ["zoomify", "-r", ",".join(map(str, res)), "-c", str(case["chunksize"]), "--field", "count"]))
            for label, order, kw, cliargs in variants:
                _unlink(out)
                where = {"route": label}
                if cliargs is None:
                    impl(cooler.zoomify_cooler, [paths[i] for i in order], out, list(res), case["chunksize"], **kw)
                else:
                    r = CliRunner().invoke(cli, cliargs + ["-i", paths[order[1]], "-o", out, paths[order[0]]])
                    if r.exit_code != 0:
                        return dict(where, mismatch=True, what="cooler zoomify failed", exception=repr(r.exception)[:300])
                listing = impl(cooler.fileops.list_coolers, out)
                if listing != want_listing:
                    return dict(where, mismatch=True, what="list_coolers", impl=listing, model=want_listing)
                for r_ in resn:
                    x = _mixed_level(out, r_, bases, with_w, where)
                    if x:
                        return x
        return None
    finally:
        _unlink(out, *paths)


CHECKS = {"zoomify": _zoomify, "columns": _columns, "cli": _cli, "forms": _forms, "sequence": _sequence, "mixed_dtypes": _mixed_dtypes,
          "multseq": _multseq, "preferred": _preferred}


def _legacy(case):
    """legacy_zoomify / `cooler zoomify --legacy`: levels ::n … ::0, each the direct coarsening of the base by 2^k"""
    d = gen.tmpdir()
    tag = _tag()
    src = os.path.join(d, f"zl-{tag}-src.cool")
    out = os.path.join(d, f"zl-{tag}-out.mcool")
    try:
        return _legacy_at(case, src, out)
    finally:
        _unlink(out, src)


def _legacy_at(case, src, out):
    """the legacy producer writing `out` (which may already exist: it is opened with mode "w"); `src` is scratch"""
    import cooler._reduce as red
    b = case["base"]
    old = red.HIGLASS_TILE_DIM
    try:
        gen.write_cooler(src, b["bins"], b["pixels"], symm=b.get("symm", True))
        uri = src
        m = drv().ask("C09.legacy", bins=b["bins"], pixels=b["pixels"], chunksize=case["chunksize"], binsize=b["width"], tile=case["tile"])
        assert m["base_ok"] and m["l1_agrees"], "theorem legacy_level_eq_direct contradicted / base outside the hypotheses"
        n = m["depth"]
        red.HIGLASS_TILE_DIM = case["tile"]
        if case.get("cli"):
            from click.testing import CliRunner
            from cooler.cli import cli
            r = impl(lambda: CliRunner().invoke(cli, ["zoomify", "--legacy", "-c", str(case["chunksize"]), "-o", out, uri]))
            if r.exit_code != 0:
                return {"mismatch": True, "what": "cooler zoomify --legacy failed", "exit": r.exit_code, "output": r.output[-400:],
                        "exc": repr(r.exception)}
        else:
            ret = impl(red.legacy_zoomify, uri, out, case.get("nproc", 1), case["chunksize"])
            if int(ret[0]) != n:
                return {"mismatch": True, "what": "number of zoom levels", "impl": int(ret[0]), "model": n, "total_bp": m["total_bp"]}
        red.HIGLASS_TILE_DIM = old
        listing = sorted(impl(cooler.fileops.list_coolers, out))
        want_listing = sorted(f"/{i}" for i in range(n + 1))
        if listing != want_listing:
            return {"mismatch": True, "what": "levels present", "impl": listing, "model": want_listing}
        with h5py.File(out, "r") as f:
            attrs = {k: (v.tolist() if hasattr(v, "tolist") else v) for k, v in f.attrs.items()}
        want_attrs = {str(lv): bs for lv, bs in m["binsizes"]}
        got_attrs = {k: int(v) for k, v in attrs.items() if k.isdigit()}
        if got_attrs != want_attrs or int(attrs.get("max-zoom", -1)) != n:
            return {"mismatch": True, "what": "root attributes (level -> bin size, max-zoom)", "impl": attrs, "model": want_attrs, "depth": n}
        for k, want in enumerate(m["levels"]):
            lv = n - k
            v = monitor.violations(out, str(lv))
            if v:
                return {"mismatch": True, "level": lv, "what": "schema (C02 monitor)", "violated": v}
            if k == 0:
                s_, d_ = _h5_dump(src, "/"), _h5_dump(out, str(lv))
                if s_ != d_:
                    diff = sorted(x for x in set(s_) | set(d_) if s_.get(x) != d_.get(x))
                    return {"mismatch": True, "level": lv, "what": "finest level is not a faithful copy of the base", "differs": diff}
                continue
            r = _compare_level(f"{out}::{lv}", want, {"level": lv, "factor": 2 ** k})
            if r:
                r["mismatch"] = True
                r["note"] = "legacy level is not the coarsening of the base by 2^(n - level)"
                return r
            bs = impl(lambda: cooler.Cooler(f"{out}::{lv}").binsize)
            if bs is not None and int(bs) != b["width"] * 2 ** k:
                return {"mismatch": True, "level": lv, "what": "bin size of the level", "impl": int(bs), "model": b["width"] * 2 ** k}
        return {"stats": {"legacy_levels": n + 1, f"legacy_depth={n}": 1}}
    finally:
        red.HIGLASS_TILE_DIM = old
        _unlink(src)


CHECKS["legacy"] = _legacy


def _reuse(case):
    """several runs writing the SAME output path: after every run the file is exactly what that run alone produces"""
    import cooler._reduce as red
    from click.testing import CliRunner
    from cooler.cli import cli
    d = gen.tmpdir()
    tag = _tag()
    out = os.path.join(d, f"zr-{tag}-out.mcool")
    scratch = os.path.join(d, f"zr-{tag}-src.cool")
    paths = []
    try:
        _unlink(out)
        pr = case.get("prior")
        if pr:      # what an unrelated earlier use of the path left there
            pb = pr["base"]
            if pr["kind"] == "cool":
                gen.write_cooler(out, pb["bins"], pb["pixels"], symm=pb.get("symm", True))
            else:
                gen.write_cooler(scratch, pb["bins"], pb["pixels"], symm=pb.get("symm", True))
                old = red.HIGLASS_TILE_DIM
                try:
                    red.HIGLASS_TILE_DIM = pr.get("tile", 2)
                    red.legacy_zoomify(scratch, out, 1, 100)
                finally:
                    red.HIGLASS_TILE_DIM = old
                    _unlink(scratch)
        done = []
        for k, step in enumerate(case["steps"]):
            before = list(cooler.fileops.list_coolers(out)) if os.path.exists(out) else []
            where = {"call": k, "route": step["route"], "path_held_before": before,
                     "calls_so_far": done + [step["route"]]}
            if step["route"] == "legacy":
                r = _legacy_at(step, scratch, out)
                if r and r.get("mismatch"):
                    return dict(r, **where, note="a run over an existing output file must leave exactly its own levels")
                done.append("legacy")
                continue
            _unlink(*paths)
            paths = _write_bases(step, d, f"{tag}-s{k}")
            res = list(step["resolutions"])
            lean_bases = [{"res": _base_res(b), "bins": b["bins"], "pixels": b["pixels"]} for b in step["bases"]]
            m = drv().ask("C09.zoomify", bases=lean_bases, resolutions=res, chunksize=step["chunksize"], prior=before)
            assert m["bases_ok"], "generator produced a base outside the theorems' hypotheses"
            cr = None
            if step["route"] == "cli":
                args = ["zoomify", "-c", str(step["chunksize"]), "-o", out, "-r", ",".join(map(str, res))]
                for p in paths[1:]:
                    args += ["-i", p]
                cr = impl(lambda: CliRunner().invoke(cli, args + [paths[0]]))
                r = ("ok", None) if cr.exit_code == 0 else ("err", errclass(cr.exception) if cr.exception else "exit")
            else:
                r = guarded(cooler.zoomify_cooler, list(paths), out, res, step["chunksize"])
            if "err" in m:
                if r[0] == "ok":
                    return dict(where, mismatch=True, what="a resolution that is not a multiple of any base was not refused")
                if step["route"] == "lib" and r[1] != m["err"]:
                    return dict(where, mismatch=True, what="refusal", impl=r[1], model=m["err"])
                done.append(step["route"] + " (refused)")
                continue            # what a refused run leaves at the path is not specified
            if r[0] == "err":
                if step["route"] == "lib":
                    impl(cooler.zoomify_cooler, list(paths), out, res, step["chunksize"])
                return dict(where, mismatch=True, what="zoomify failed on derivable targets",
                            exception=repr(cr.exception)[:300] if cr is not None else r[1])
            mo = m["ok"]
            assert mo["l1_agrees"] and mo["multseq_valid"], "theorem zoom_level_eq_direct / multseq_sound contradicted"
            assert mo["file_is_this_run"] and mo["file_listing"] == mo["listing"], "theorem zoomify_file contradicted"
            x = _check_output(step, out, paths, mo)
            if x:
                return dict(x, **where, note="after a run over an existing output file the file must hold exactly the levels of "
                                             "THIS run (requested + bases), each the coarsening of THIS run's base")
            done.append(step["route"])
        return {"stats": {"runs_on_one_path": len(case["steps"])}}
    finally:
        _unlink(out, scratch, *paths)


CHECKS["reuse"] = _reuse


# ----------------------------------------------------------------------------------------------
# generators
# ----------------------------------------------------------------------------------------------

def _fixed_bins(lengths, w):
    return gen.uniform_bins(lengths, w)


def _base(rng, lengths, w, symm, kind=None, weight=False):
    bins = _fixed_bins(lengths, w)
    px = gen.matrix_kinds(rng, len(bins), symm, kind)
    b = {"width": w, "bins": bins, "pixels": px, "symm": symm}
    if weight:
        b["weight"] = True
    return b


def _var_base(rng, symm):
    nch = rng.randint(1, 2)
    bins = []
    for c in range(nch):
        bins += gen.chrom_bins(c, [rng.randint(1, 9) for _ in range(rng.randint(1, 8))])
    return {"variable": True, "bins": bins, "pixels": gen.matrix_kinds(rng, len(bins), symm), "symm": symm}


def _one_case(rng, mults, thorough, nbases=None, bad=None, variable=None):
    symm = rng.random() < 0.75
    variable = rng.random() < 0.15 if variable is None else variable
    if variable:
        bases = [_var_base(rng, symm)]
        w = 1
    else:
        w = rng.randint(1, 3)
        nbases = nbases or rng.choice([1, 1, 1, 2, 2, 3])
        widths = [w]
        if nbases >= 2:
            j = rng.randint(2, 3)
            widths.append(w * j)
            if nbases >= 3:
                widths.append(rng.choice([w * j * 2, w * (j + 1)]))
        maxw = max(widths)
        # every base must have a chromosome with >= 2 bins, else its bin size cannot be inferred (it would be named 1)
        lengths = [rng.randint(maxw + 1, maxw + 2 * w + 3)]
        if rng.random() < 0.5:
            lengths.append(rng.randint(1, 3 * w))
        bases = [_base(rng, lengths, x, symm, None if k == 0 else rng.choice(["random", "dense-random", "full"]),
                       weight=rng.random() < 0.3) for k, x in enumerate(widths)]
    res = [w * m for m in mults]
    if rng.random() < 0.5 and w not in res:
        res.append(w)
    if bad if bad is not None else rng.random() < 0.12:
        ws = [1] if variable else widths
        pool = [x for x in range(2, 12 * w + 2) if all(x % y for y in ws)]
        if pool:
            res.append(rng.choice(pool))
    rng.shuffle(res)
    nnz = len(bases[0]["pixels"])
    order = list(range(len(bases)))
    rng.shuffle(order)
    c = {"bases": bases, "resolutions": res, "chunksize": rng.randint(max(1, nnz // 6), nnz + 1) if nnz > 40 else rng.randint(1, nnz + 1),
         "uri_order": order}
    if thorough and rng.random() < 0.1:
        c["nproc"] = 2
    if len(bases) == 1 and rng.random() < 0.3:
        c["single_str"] = True
    return c


def _any_width(rng):
    """a base bin size of any magnitude: small, arbitrary up to a few hundred, round decimal, power of two"""
    k = rng.randrange(4)
    if k == 0:
        return rng.randint(1, 12)
    if k == 1:
        return rng.randint(13, 400)
    if k == 2:
        return rng.choice([1, 2, 5]) * 10 ** rng.randint(1, 5)
    return 2 ** rng.randint(4, 14)


def _any_mults(rng, n, cap=400):
    """n target multipliers of any magnitude up to `cap` (small, medium, large), some of them multiples of others (chains)"""
    ms = set()
    while len(ms) < n:
        k = rng.randrange(8)         # 1/4 small, 3/8 medium, 3/8 large: arbitrary (not small, not round) values are the majority
        m = rng.randint(2, 12) if k < 2 else rng.randint(13, min(60, cap)) if k < 5 else rng.randint(min(61, cap), cap)
        ms.add(m)
        if rng.random() < 0.3 and m * 3 <= cap:
            ms.add(m * rng.choice([2, 3]))
    return sorted(ms)


def _boundary_pixels(rng, counts, mults, symm, extra=20):
    """sparse pixels over chromosomes of `counts` bins that sit where a re-binning by any of `mults` can go wrong: on the first
    base bin of a coarse bin and on the last one of the coarse bin before it (the first coarse boundaries of every chromosome and
    some random ones), on the chromosome ends, plus `extra` random cells"""
    offs = [0]
    for n in counts:
        offs.append(offs[-1] + n)
    N = offs[-1]
    marks = set()
    for c, n in enumerate(counts):
        marks |= {offs[c], offs[c] + n - 1}
        for m in mults:
            ks = list(range(1, -(-n // m)))
            for k in ks[:2] + rng.sample(ks, min(1, len(ks))):
                marks |= {offs[c] + k * m, offs[c] + k * m - 1}
    marks = sorted(marks)
    cells = set()
    for a in marks:
        for b in (rng.choice(marks), rng.randrange(N)) + ((a,) if rng.random() < 0.3 else ()):
            cells.add((min(a, b), max(a, b)) if symm else (a, b) if rng.random() < 0.5 else (b, a))
    for _ in range(extra):
        a, b = rng.randrange(N), rng.randrange(N)
        cells.add((min(a, b), max(a, b)) if symm else (a, b))
    return [[i, j, 1 + (i * 7 + j * 3) % 50] for i, j in sorted(cells)]


def _wide_case(rng, thorough):
    """bin sizes of any magnitude: base width w, targets w*m for multipliers up to a few hundred (several coarse bins per
    chromosome even at the coarsest level), sparse pixels biased to the coarse-bin boundaries"""
    w = _any_width(rng)
    cap = rng.choice([40, 120, 400])
    mults = _any_mults(rng, rng.randint(4, 9), cap)
    maxm = max(mults)
    counts = [maxm * rng.randint(2, 4) + rng.randrange(maxm)]
    if rng.random() < 0.6:
        counts.append(rng.randint(2, 2 * maxm))
    if rng.random() < 0.3:
        counts.append(rng.randint(1, 3))
    lengths = [w * n - rng.randrange(w) for n in counts]
    symm = rng.random() < 0.75
    bases = [{"width": w, "bins": _fixed_bins(lengths, w), "pixels": _boundary_pixels(rng, counts, mults, symm), "symm": symm}]
    if rng.random() < 0.25:          # a second, independent base that is a multiple of the first
        j = rng.randint(2, 5)
        c2 = [-(-L // (w * j)) for L in lengths]
        if max(c2) >= 2:
            bases.append({"width": w * j, "bins": _fixed_bins(lengths, w * j), "symm": symm,
                          "pixels": _boundary_pixels(rng, c2, [max(1, m // j) for m in mults if m // j >= 2], symm, extra=10)})
    res = [w * m for m in mults]
    if rng.random() < 0.4:
        res.append(w)
    rng.shuffle(res)
    nnz = len(bases[0]["pixels"])
    order = list(range(len(bases)))
    rng.shuffle(order)
    c = {"bases": bases, "resolutions": res, "chunksize": rng.choice([rng.randint(max(1, nnz // 8), nnz + 1), rng.randint(max(1, nnz // 3), nnz + 1), nnz + 1]),
         "uri_order": order}
    if thorough and rng.random() < 0.1:
        c["nproc"] = 2
    return c


def _cli_long_base(rng, w):
    """a genome long enough for the N/B progressions to have several terms: ceil(genome length / 256) = 6w … 12w"""
    cap = w * rng.randint(6, 12)
    glen = 256 * cap - rng.randrange(256)
    l0 = glen * rng.randint(5, 8) // 10
    lengths = [l0, glen - l0]
    bins = _fixed_bins(lengths, w)
    n0 = -(-l0 // w)
    px = sorted({(rng.randrange(0, n0), rng.randrange(n0, len(bins))) for _ in range(12)})
    return {"width": w, "bins": bins, "symm": True, "pixels": [[i, j, 1 + k] for k, (i, j) in enumerate(px)]}


def _cli_item_sets(rng, w, n):
    """`n` sets of 2-3 distinct items of a -r list over a base of width w: bare N/B, <k>N/<k>B with an explicit start, integers"""
    def prog():
        return f"{w * rng.randint(2, 6)}{rng.choice('nb')}"

    def bare():
        return rng.choice("nb")

    def integer():
        return str(w * rng.randint(2, 9))
    out = []
    for t in range(n):
        if t % 2 == 0:       # the item kinds mixed: a bare progression and one with an explicit start (and possibly a third item)
            items = [bare(), prog()] + ([rng.choice([bare, prog, integer])()] if rng.random() < 0.5 else [])
        else:
            items = [rng.choice([bare, prog, integer])() for _ in range(rng.randint(2, 3))]
        items = sorted(set(items))
        if len(items) >= 2:
            out.append(items)
    return out


def _decorate(rng, item):
    """spelling that must not matter: upper case, blanks around the item"""
    if rng.random() < 0.3:
        item = item.upper()
    if rng.random() < 0.3:
        item = " " * rng.randint(0, 2) + item + " " * rng.randint(0, 2)
    return item


def _reuse_case(rng):
    """2-4 runs on one output path; a run keeps the previous run's bases with another ladder, or takes other bases"""
    steps = []
    for k in range(rng.randint(2, 4)):
        if rng.random() < 0.12 and steps:
            w = rng.randint(1, 3)
            b = _base(rng, [rng.randint(w + 1, 9 * w)] + ([rng.randint(1, 5 * w)] if rng.random() < 0.6 else []), w, True)
            steps.append({"route": "legacy", "base": b, "tile": rng.randint(1, 3), "chunksize": rng.randint(1, len(b["pixels"]) + 1)})
            continue
        prev = [s_ for s_ in steps if s_["route"] != "legacy"]
        c = _one_case(rng, rng.sample(range(1, 13), rng.randint(0, 3)), False, bad=rng.random() < 0.1,
                      variable=rng.random() < 0.1)
        if prev and rng.random() < 0.55:
            # the same bases again with another ladder: a strict part of the previous one, the previous one, or a fresh one
            p = prev[-1]
            w = p["bases"][0].get("width", 1)
            how = rng.randrange(3)
            if how == 0 and len(p["resolutions"]) >= 1:
                res = rng.sample(p["resolutions"], rng.randint(0, len(p["resolutions"]) - 1))
            elif how == 1:
                res = list(p["resolutions"])
            else:
                res = [w * m for m in rng.sample(range(1, 13), rng.randint(0, 3))]
            c = {"bases": p["bases"], "resolutions": res, "chunksize": rng.randint(1, 12)}
        steps.append({"route": "cli" if (c["resolutions"] and rng.random() < 0.3) else "lib", "bases": c["bases"],
                      "resolutions": c["resolutions"], "chunksize": c["chunksize"]})
    case = {"steps": steps}
    r = rng.random()
    if r < 0.35:
        w = rng.randint(1, 3)
        pb = _base(rng, [rng.randint(w + 1, 9 * w), rng.randint(1, 4 * w)], w, True, "dense-random")
        case["prior"] = {"kind": "cool" if r < 0.15 else "legacy", "base": pb, "tile": rng.randint(1, 3)}
    return case


def cases(tier, rng):
    thorough = tier == "thorough"
    # corpus ------------------------------------------------------------------------------------
    L = [11, 5]
    b1 = {"width": 1, "bins": _fixed_bins(L, 1), "pixels": gen.matrix_kinds(rng, 16, True, "dense-random"), "symm": True, "weight": True}
    b2 = {"width": 2, "bins": _fixed_bins(L, 2), "pixels": gen.matrix_kinds(rng, 9, True, "full"), "symm": True, "weight": True}
    b4 = {"width": 4, "bins": _fixed_bins(L, 4), "pixels": gen.matrix_kinds(rng, 5, True, "full"), "symm": True}
    # D9: two bases; D19: a base that is a multiple of another base stays a copy of its own source
    yield "zoomify", {"bases": [b1, b2], "resolutions": [4, 2, 6], "chunksize": 5}
    yield "zoomify", {"bases": [b2, b4, b1], "resolutions": [8, 12, 3], "chunksize": 7, "uri_order": [2, 0, 1]}
    yield "zoomify", {"bases": [b2, b4], "resolutions": [8, 6, 12], "chunksize": 3}
    # mixed predecessors 2,3,6 / 4,6,12 from one base; base not listed; only the base
    yield "zoomify", {"bases": [b1], "resolutions": [6, 3, 2], "chunksize": 4}
    yield "zoomify", {"bases": [b1], "resolutions": [12, 4, 6], "chunksize": 100, "single_str": True}
    yield "zoomify", {"bases": [b2], "resolutions": [], "chunksize": 3}
    yield "zoomify", {"bases": [b2], "resolutions": [2], "chunksize": 3}
    yield "zoomify", {"bases": [b2], "resolutions": [4, 5], "chunksize": 3}       # 5 must be refused
    yield "zoomify", {"bases": [b2, b4], "resolutions": [8, 3], "chunksize": 3}   # 3 must be refused
    yield "columns", {"bases": [b1], "resolutions": [2, 6, 3], "chunksize": 6}
    yield "columns", {"bases": [b2], "resolutions": [4, 8], "chunksize": 2}
    # generated ---------------------------------------------------------------------------------
    allsets = [list(s) for k in range(0, 4) for s in itertools.combinations(range(1, 13), k)]
    if thorough:
        sets = allsets
    else:
        sets = rng.sample(allsets, 64)
    for mults in sets:
        yield "zoomify", _one_case(rng, list(mults), thorough)
    for _ in range(60 if thorough else 24):
        yield "zoomify", _one_case(rng, rng.sample(range(1, 13), rng.randint(1, 3)), thorough, nbases=rng.choice([2, 3]), bad=False,
                                   variable=False)
    for _ in range(24 if thorough else 8):
        yield "zoomify", _one_case(rng, rng.sample(range(2, 13), rng.randint(1, 3)), thorough, variable=True, bad=False)
    # bin sizes of any magnitude (base widths up to 5e5, multipliers up to 400), pixels on the coarse-bin boundaries ---------
    for _ in range(160 if thorough else 24):
        yield "zoomify", _wide_case(rng, thorough)
    # the same output path written again ------------------------------------------------------------------------------
    yield "reuse", {"steps": [{"route": "lib", "bases": [b1], "resolutions": [2, 4, 8], "chunksize": 5},
                              {"route": "lib", "bases": [b1], "resolutions": [2], "chunksize": 5},
                              {"route": "lib", "bases": [b4], "resolutions": [8], "chunksize": 5},
                              {"route": "cli", "bases": [b2, b1], "resolutions": [6], "chunksize": 5}]}
    yield "reuse", {"prior": {"kind": "legacy", "base": b2, "tile": 2},
                    "steps": [{"route": "cli", "bases": [b2], "resolutions": [4, 12], "chunksize": 4},
                              {"route": "legacy", "base": dict(b1), "tile": 3, "chunksize": 6},
                              {"route": "lib", "bases": [b2], "resolutions": [], "chunksize": 4}]}
    yield "reuse", {"prior": {"kind": "cool", "base": b4},
                    "steps": [{"route": "lib", "bases": [b4], "resolutions": [8, 5], "chunksize": 4},      # refused
                              {"route": "lib", "bases": [b4], "resolutions": [8], "chunksize": 4}]}
    for _ in range(120 if thorough else 20):
        yield "reuse", _reuse_case(rng)
    # presentation of the target set; sequences of calls in one process -----------------------------------------------
    yield "forms", {"bases": [b2], "resolutions": [8, 4, 6], "chunksize": 3}
    yield "forms", {"bases": [b1, b4], "resolutions": [2, 6, 8], "chunksize": 5}
    yield "forms", {"bases": [b1], "resolutions": [4, 8, 12], "chunksize": 4}          # also presentable as range(4, 13, 4)
    for _ in range(10 if thorough else 3):
        c = _one_case(rng, rng.sample(range(2, 13), rng.randint(1, 3)), False, bad=False, variable=False)
        c.pop("uri_order", None); c.pop("single_str", None); c.pop("nproc", None)
        c["resolutions"] = sorted(set(c["resolutions"]), key=lambda x: rng.random())
        yield "forms", c
    for t in range(8 if thorough else 3):
        w = rng.randint(1, 3)
        lengths = [rng.randint(2 * w + 1, 6 * w + 3)] + ([rng.randint(1, 3 * w)] if rng.random() < 0.5 else [])
        steps = []
        for kind in (["int", "float", "int"] if t % 2 == 0 else ["int", "float"]):
            b = _base(rng, lengths, w, True, rng.choice(["random", "dense-random", "full"]))
            if not b["pixels"]:
                b = _base(rng, lengths, w, True, "full")
            if kind == "float":     # numerators: at least one value that is not a whole number, sums that are not whole either
                b["pixels"] = [[i, j, 4 * (v % 5) + 1 + (k % 3)] for k, (i, j, v) in enumerate(b["pixels"])]
            steps.append({"kind": kind, "base": b, "resolutions": [w * m for m in rng.sample(range(2, 9), rng.randint(1, 3))]})
        yield "sequence", {"steps": steps, "chunksize": rng.randint(1, 12)}
    # two bases whose count dtypes differ (D27) ------------------------------------------------------------------------
    pa = [[0, 1, 3], [0, 2, 1], [1, 1, 2], [2, 5, 7], [3, 3, 1], [6, 7, 4], [7, 8, 2]]
    pb = [[0, 0, 1], [0, 1, 6], [1, 2, 11], [2, 3, 2], [3, 3, 5]]          # quarters: 0.25 1.5 2.75 0.5 1.25
    yield "mixed_dtypes", {"bases": [{"kind": "int", "width": 2, "bins": _fixed_bins([11, 5], 2), "pixels": pa, "w": [5, 1, 4, 2, 8, 3, 6]},
                                     {"kind": "float", "width": 3, "bins": _fixed_bins([11, 5], 3), "pixels": pb, "w": [2, 7, 1, 9, 4]}],
                           "resolutions": [4, 6, 9, 8], "chunksize": 100}
    for t in range(6 if thorough else 2):
        wa, wb = rng.choice([(2, 3), (3, 2), (1, 2), (2, 1), (3, 4), (2, 5)])
        lengths = [rng.randint(2 * max(wa, wb) + 1, 3 * max(wa, wb) + 4)] + ([rng.randint(1, 6)] if rng.random() < 0.5 else [])
        bs = []
        for kind, w_ in (("int", wa), ("float", wb)):
            b = _base(rng, lengths, w_, True, rng.choice(["random", "dense-random", "full"]))
            if not b["pixels"]:
                b = _base(rng, lengths, w_, True, "full")
            if kind == "float":
                b["pixels"] = [[i, j, 4 * (v % 5) + 1 + (k % 3)] for k, (i, j, v) in enumerate(b["pixels"])]
            b["kind"] = kind
            b["w"] = [(v * 3 + k) % 10 for k, (_, _, v) in enumerate(b["pixels"])]
            bs.append(b)
        res = sorted({wa * rng.randint(2, 5) for _ in range(2)} | {wb * rng.randint(2, 5) for _ in range(2)}, key=lambda x: rng.random())
        yield "mixed_dtypes", {"bases": bs, "resolutions": res, "chunksize": rng.randint(1, 20)}
    # CLI spellings --------------------------------------------------------------------------------
    big = {"width": 1, "bins": _fixed_bins([1500, 700], 1), "symm": True,
           "pixels": sorted([rng.randrange(0, 1100), rng.randrange(1100, 2200), 1 + k] for k in range(12))}
    big2 = {"width": 4, "bins": _fixed_bins([1500, 700], 4), "symm": True,
            "pixels": sorted([rng.randrange(0, 250), rng.randrange(250, 550), 1 + k] for k in range(8))}
    specs = [None, "b", "n", "B", "N", "2b", "3B", "3n", "2N", "4dn", "4DN", "6,3,2", " 6 , 3 ", "5", "2b,5n", "3,N", "7b",
             "x", "3,,4", "2.5"]
    if not thorough:
        specs = [None, "N", "3B", "2n", "4DN", " 6 , 3 ", "2b,5n", "x"]
    for s in specs:
        yield "cli", {"bases": [big], "spec": s, "chunksize": rng.choice([3, 5, 100])}
    yield "cli", {"bases": [big, big2], "spec": "2b,12", "chunksize": 4}
    wid = [rng.randint(1, 9) for _ in range(420)] + [3]
    varbig = {"variable": True, "bins": gen.chrom_bins(0, wid[:300]) + gen.chrom_bins(1, wid[300:]), "symm": True,
              "pixels": sorted([rng.randrange(0, 200), rng.randrange(200, 421), 1 + k] for k in range(10))}
    yield "cli", {"bases": [varbig], "spec": "b", "chunksize": 4}
    yield "cli", {"bases": [varbig], "spec": "3,N", "chunksize": 4}
    # a -r list is a set of items: every ORDER of 2-3 items of mixed kinds (bare N/B, <k>N/<k>B, integers), on genomes long
    # enough for the progressions to have several terms, base widths 1-3
    for t in range(10 if thorough else 3):
        w = rng.randint(1, 3)
        lb = _cli_long_base(rng, w)
        for items in _cli_item_sets(rng, w, 4 if thorough else 3):
            for perm in itertools.permutations(items):
                yield "cli", {"bases": [lb], "spec": ",".join(_decorate(rng, x) for x in perm), "chunksize": rng.choice([3, 5, 100])}
    # units ----------------------------------------------------------------------------------------
    ressets = [list(s) for k in range(1, 4) for s in itertools.combinations(range(1, 25), k)]
    for res in ressets:
        pool = sorted(set(res) | {1, 2, 3})
        kmax = len(pool) if thorough else 2
        bl = [None] + [list(s) for k in range(1, kmax + 1) for s in itertools.combinations(pool, k)]
        r = list(res)
        rng.shuffle(r)
        yield "multseq", {"resolutions": r, "bases_list": bl}
    yield "multseq", {"resolutions": [], "bases_list": [None, [2], [2, 3]]}
    # legacy quad-tree producer -------------------------------------------------------------------
    for k in range(60 if thorough else 14):
        w = rng.randint(1, 3) if k % 2 == 0 else _any_width(rng)
        symm = rng.random() < 0.75
        if k % 7 == 3:
            # the real tile dimension: 256 bins per tile, bases of 260..1100 bins (depth 1..3), sparse
            nb = rng.choice([257, 300, 512, 513, 700, 1025])
            lengths = [w * (nb - 40) - rng.randint(0, w - 1), w * 40]
            bins = _fixed_bins(lengths, w)
            n = len(bins)
            cells = sorted({(min(i, j), max(i, j)) if symm else (i, j)
                            for i, j in ((rng.randrange(n), rng.randrange(n)) for _ in range(150))})
            px = [[i, j, 1 + (i * 7 + j * 3) % 50] for i, j in cells]
            c = {"base": {"width": w, "bins": bins, "pixels": px, "symm": symm}, "tile": 256, "chunksize": rng.randint(20, 200)}
        else:
            tile = rng.randint(1, 4)
            lengths = [rng.randint(w + 1, 9 * w)] + ([rng.randint(1, 5 * w)] if rng.random() < 0.6 else [])
            b = _base(rng, lengths, w, symm)
            c = {"base": b, "tile": tile, "chunksize": rng.randint(1, len(b["pixels"]) + 1)}
        if k % 3 == 1:
            c["cli"] = True
        yield "legacy", c
    for start in range(1, 31 if thorough else 13):
        yield "preferred", {"pairs": [(start, stop) for stop in list(range(0, 60)) + [99, 100, 101, 999, 1000, 5000, 10 ** 6]]}


def nontrivial(name, case):
    if name == "mixed_dtypes":
        return True
    if name == "sequence":
        return len(case["steps"]) >= 2
    if name == "forms":
        return len(case["resolutions"]) >= 1
    if name in ("zoomify", "cli", "columns"):
        return len(case["bases"][0]["pixels"]) >= 2 and (name == "cli" or len(set(case["resolutions"])) >= 1)
    if name == "multseq":
        return len(case["resolutions"]) >= 2
    if name == "legacy":
        return len(case["base"]["pixels"]) >= 2
    return True


def distribution(name, case):
    if name == "zoomify":
        yield f"zoomify.nbases={len(case['bases'])}"
        yield "zoomify.variable" if case["bases"][0].get("variable") else f"zoomify.width={case['bases'][0]['width']}"


def shrink(name, case):
    if name == "forms":
        for f in sorted(FORMS) + ["range"]:
            if case.get("forms") != [f]:
                yield dict(case, forms=[f])
    if name == "zoomify":
        res = case["resolutions"]
        for i in range(len(res)):
            yield dict(case, resolutions=res[:i] + res[i + 1:])
        for bi, b in enumerate(case["bases"]):
            px = b["pixels"]
            for i in range(len(px)):
                nb = dict(b, pixels=px[:i] + px[i + 1:])
                yield dict(case, bases=case["bases"][:bi] + [nb] + case["bases"][bi + 1:], chunksize=min(case["chunksize"], len(px)))
    if name == "multseq":
        for bl in case["bases_list"]:
            if case["bases_list"] != [bl]:
                yield dict(case, bases_list=[bl])
    if name == "reuse":
        if case.get("prior"):
            yield {k: v for k, v in case.items() if k != "prior"}
        st = case["steps"]
        for i in range(len(st)):
            if len(st) > 1:
                yield dict(case, steps=st[:i] + st[i + 1:])
        for i, x in enumerate(st):
            if x["route"] == "cli":
                yield dict(case, steps=st[:i] + [dict(x, route="lib")] + st[i + 1:])


def escalate(name, case, rng):
    """get_multiplier_sequence stopped satisfying its contract: look for a wrong zoomify end to end"""
    worker_init()
    todo = []
    if name == "multseq":
        for bl in case["bases_list"]:
            if bl is None or any(b > 4 for b in bl) or not bl:
                continue
            L = [12, 7]
            bases = [_base(rng, L, b, True, "dense-random") for b in sorted(set(bl))]
            todo.append({"bases": bases, "resolutions": list(case["resolutions"]), "chunksize": 5})
    for _ in range(40):
        todo.append(_one_case(rng, rng.sample(range(1, 13), rng.randint(1, 3)), False))
    for c in todo:
        r = run_check(_zoomify, c)
        if r:
            return {"check": "zoomify", "case": c, "result": r}
    return None
