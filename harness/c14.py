"""C14 — table selectors and bin annotation return the rows and coordinates asked for."""
from __future__ import annotations

import itertools
import json
import math
import os

import numpy as np
import pandas as pd

from harness import gen
from harness.common import drv, errclass, impl as cooler_call

PID = "C14"
THEOREMS = ["processSlice_spec", "processScalar_spec", "slice_rows", "tableGet_part", "selector_slice_rows",
            "selector_scalar_row", "selector_slice_labels", "column_selection_commutes", "column_selection_commutes_one",
            "annotate_correct", "annotateSpec_ok", "annotate_selector_correct", "annotate_forms_agree",
            "selector_slice_rows_wide", "annotate_empty", "pixels_join_slice", "chrom_decode_agree", "chrom_decode_agree_frames",
            "legacy_substring_rule_violates", "categorical_roundtrip", "cell_categorical", "fromCode_missing",
            "missing_label_not_category"]
LEVELS = {"select": "top", "commutes": "top", "annotate": "top", "chrom_decode": "top",
          "process_slice": "unit", "sequence": "top"}
DESCRIBE = {
    "select": "Cooler.chroms()/bins()/pixels(join)[cols][key] for every in-domain row key vs Lean `Selector.getRows` "
              "(= L0 `(whole.project cols).part a b`, theorems slice_rows / selector_slice_rows / column_selection_commutes): "
              "values, column names, index labels; row keys also spelled with numpy integers; `sel.fetch(region)` for every "
              "whole chromosome and (default columns, stores with extra columns) every bin-aligned part of one vs `getRows` on the stored row range of the region; tables "
              "holding extra columns of every kind (theorems categorical_roundtrip / cell_categorical / fromCode_missing)",
    "commutes": "sel[cols][key] vs Lean `Frame.project` applied to the implementation's own sel[key]",
    "annotate": "cooler.annotate(pixels, bins, replace) with bins as whole frame, selector and every sufficient contiguous "
                "part vs Lean `annotate` (= L0 `annotateSpec`, theorems annotate_correct / annotate_selector_correct / "
                "annotate_forms_agree / annotate_empty)",
    "chrom_decode": "bins/chrom rewritten as plain int32: Cooler.bins()[cols][key] vs Lean `binsGet` on the integer "
                    "encoding and vs the enum-encoded file (theorem chrom_decode_agree)",
    "process_slice": "_IndexingMixin._process_slice(key, n) vs Lean `processKey` (theorems processSlice_spec, processScalar_spec)",
    "sequence": "call sequence in one process on one path: read bins / annotate, then rename_chroms (or another cooler written "
                "over the path), read again with the same and a fresh Cooler — each read vs Lean `Selector.getRows` / `annotate` "
                "on the tables stored at that moment; enum- and integer-encoded bins/chrom",
}
RULE = ("stores: every bins-per-chromosome layout with 1-3 chromosomes and n <= 4 (quick) / <= 5 (thorough) bins plus seeded "
        "random layouts up to n = 6 / 8, nnz <= 5 / 7, float bin column `weight` with NaNs, integer bin column `mychrom`, "
        "float pixel column `extra`; per table and per column key (default, every single name, every non-empty subset, a "
        "reordered list, a chained key) ALL row keys with bounds in [-n, n] U {None, n+1, n+1000} and all scalars in [-n, n) "
        "(nnz for the pixel table); annotate: every sequence of <= 3 stored pixels (every sub-multiset in every order), "
        "long repeated lists (more pixels than bins), custom index labels, int/uint id dtypes, replace both ways, "
        "bins as whole frame, selector, selector with a column list, and every contiguous part containing the needed "
        "ids (every part at all for an empty pixel list); pixel frames carry an int64/int32/uint Index, pandas' default "
        "RangeIndex, or the RangeIndex of a positional slice / reversal / stride (`df.iloc[a:b]`, `[::-1]`, `[::2]`) and the "
        "result's INDEX is compared; call sequences read-rename-read and read-overwrite-read on one path in one process for "
        "enum- and integer-encoded chromosome columns; 5 (quick) / 13 (thorough) further stores, n <= 5, whose chroms, bins AND "
        "pixels tables each hold a categorical column (walking through: ordered or not, categories in non-alphabetical order, "
        "categories that never occur, missing entries = stored code -1, nothing labelled at all, > 127 categories = int16 codes; "
        "in bins once named `b_chromstate`) and three plain columns walking through int8..int64 / uint8..uint64 at the limits of "
        "the type, float32/float64 with NaN and -0.0, bool, fixed-length bytes (with empty strings) and variable-length strings, "
        "so that every kind occurs in every table; categorical and numeric columns are written by cooler (`create_cooler`, "
        "`cooler.core.put`), string columns with h5py; on these stores: default / every extra column alone / all columns / "
        "reordered / mixed lists / chained column keys with all or 24 sampled row keys plus all scalars, fetch, join=True, "
        "commutes, integer-encoded chromosomes, the call sequences, and annotate with pixel frames that carry the extra pixel "
        "columns and bin selectors restricted to extra columns; non-trivial = table with >= 2 rows / >= 1 pixel; distinct by "
        "canonical JSON")
EXHAUSTIVE = {"quick": True, "thorough": True}
TRUSTED = ["h5py: `dset[lo:hi]` has Python slice semantics; `grp.keys()` order; enum header read with check_dtype",
           "pandas: `df.loc[a:b]` on an increasing integer index = positions searchsorted(a,'left')..searchsorted(b,'right'); "
           "`iloc[int array]` positional take with negative wrap and IndexError outside [-n, n); `concat(axis=1)` of frames "
           "with equal 0..m-1 index; `Categorical.from_codes`",
           "the stored table handed to the model is read raw with h5py (that what is stored is what was created is C01)"]
ASSUMPTIONS = ["row keys: slice bounds None or >= -n (bounds beyond the end are clipped as Python slices are), not reversed "
               "after clipping, step None/1; scalars in [-n, n)",
               "column keys: non-empty lists of existing, distinct names, or one existing name",
               "fetch: the region is a whole chromosome or bin-aligned; which rows a region denotes is C04 (the stored "
               "chrom_offset / bin1_offset give the row range handed to the model)",
               "enum columns: every stored code is -1 (missing) or the position of a member of the header",
               "annotate: pixel frame has integer bin1_id and bin2_id columns (signed, or unsigned below 64 bits); the bin "
               "frame is a contiguous part of the bin table labelled by bin id and contains every referenced bin",
               "info nbins/nchroms/nnz equal the table lengths (C02)"]
CHUNK = 4


def worker_init():
    global cooler, h5py, _IndexingMixin
    import cooler  # noqa
    import h5py  # noqa
    from cooler.core._selectors import _IndexingMixin  # noqa


# ----------------------------------------------------------------------------------------------
# stores
# ----------------------------------------------------------------------------------------------

WEIGHTS = [None, 0.5, 1.25, 2.0, 0.1]
EXTRAS = [0.5, 1.5, None, 2.25]


def make_spec(rng, sizes, nnz):
    n = sum(sizes)
    weight = [rng.choice(WEIGHTS) for _ in range(n)]
    if n >= 2:
        weight[rng.randrange(n)] = None
        k = rng.randrange(n)
        if weight[k] is None and sum(w is None for w in weight) == 1:
            k = (k + 1) % n
        weight[k] = rng.choice(WEIGHTS[1:])
    mychrom = [rng.randint(0, len(sizes)) for _ in range(n)]
    pairs = [(i, j) for i in range(n) for j in range(i, n)]
    chosen = sorted(rng.sample(pairs, min(nnz, len(pairs))))
    pixels = [[i, j, rng.randint(1, 9), rng.choice(EXTRAS)] for i, j in chosen]
    return {"sizes": list(sizes), "weight": weight, "mychrom": mychrom, "pixels": pixels}


def _chromname(spec, c):
    return gen.chromname(c) if "prefix" not in spec else f"{spec['prefix']}{c}"


# ---- extra columns of every kind a table can hold ---------------------------------------------
# a column description: {"name", "kind", "values" (one per row; None = missing / NaN), and for kind "cat" the
# "cats" (categories in order, possibly some that never occur) and "ordered"}
INT_KINDS = ["int8", "int16", "int32", "int64", "uint8", "uint16", "uint32", "uint64"]
FLOAT_KINDS = ["float32", "float64"]
PLAIN_KINDS = INT_KINDS + FLOAT_KINDS + ["bool", "bytes", "vstr"]
# float values exactly representable in float32 (so that a cell has ONE shortest repr whatever its width)
FLOATS = [None, 0.5, -1.25, 2.0, -0.0, 1048576.5, float(2 ** 100), 0.0009765625]
WORDS = ["p", "qq", "rrr", "", "t u", "Zz9", "chrom", "x" * 11]
CAT_POOLS = [["A", "B", "C"], ["hi", "lo"], ["z", "y", "x", "w"], ["only"], ["B", "A", "chr1", "NA", "nan"]]


def _int_values(kind, m, rng):
    info = np.iinfo(kind)
    pool = [int(info.min), int(info.max), 0, 1, 2, int(info.max) - 1, int(info.max) // 2 + 1]
    return [rng.choice(pool) for _ in range(m)]


def make_column(rng, name, kind, m, variant=0):
    """one column of `m` rows; `variant` walks through the sub-kinds of a categorical"""
    if kind == "cat":
        if variant % 6 == 5:
            cats = [f"k{q:03d}" for q in range(130)]        # more than 127 categories: int16 codes
        else:
            cats = list(CAT_POOLS[variant % len(CAT_POOLS)])
        ordered = bool(variant % 2)
        used = cats if variant % 3 == 0 or len(cats) == 1 else cats[1:] if variant % 3 == 1 else cats[:-1]
        used = used[-3:] if len(used) > 4 else used           # categories that never occur
        vals = [rng.choice(used) for _ in range(m)]
        if variant % 4 != 3:                                   # missing entries (stored as code -1)
            for _ in range(max(1, m // 3) if m else 0):
                vals[rng.randrange(m)] = None
        if variant % 7 == 6:
            vals = [None] * m                                  # nothing labelled at all
        return {"name": name, "kind": "cat", "values": vals, "cats": cats, "ordered": ordered}
    if kind in INT_KINDS:
        return {"name": name, "kind": kind, "values": _int_values(kind, m, rng)}
    if kind in FLOAT_KINDS:
        return {"name": name, "kind": kind, "values": [rng.choice(FLOATS) for _ in range(m)]}
    if kind == "bool":
        return {"name": name, "kind": kind, "values": [rng.random() < 0.5 for _ in range(m)]}
    return {"name": name, "kind": kind, "values": [rng.choice(WORDS) for _ in range(m)]}


def col_array(col, values=None, frame=False):
    """the column as handed to cooler (`frame`: as it sits in a pandas frame the user holds)"""
    vals = col["values"] if values is None else values
    kind = col["kind"]
    if kind == "cat":
        return pd.Categorical(vals, categories=col["cats"], ordered=col["ordered"])
    if kind in INT_KINDS:
        return np.array(vals, dtype=kind)
    if kind in FLOAT_KINDS:
        return np.array([np.nan if v is None else v for v in vals], dtype=kind)
    if kind == "bool":
        return np.array(vals, dtype=bool)
    if frame:
        return np.array(vals, dtype=object)
    return np.array([v.encode() for v in vals], dtype="S") if kind == "bytes" else list(vals)


def extras(spec, table):
    return spec.get("extras", {}).get(table, [])


BASE_COLS = {"chroms": ["name", "length"],
             "bins": ["chrom", "start", "end", "mychrom", "weight"],
             "pixels": ["bin1_id", "bin2_id", "count", "extra"]}


def table_cols(spec, table):
    return BASE_COLS[table] + [c["name"] for c in extras(spec, table)]


def make_rich_spec(rng, sizes, nnz, rot):
    """a store whose three tables carry extra columns: in every table one categorical (sub-kind chosen by `rot`:
    ordered or not, with categories that never occur, with missing entries, all missing, int16 codes) and three of
    the plain kinds, walking through `PLAIN_KINDS` so that a handful of stores holds every kind in every table"""
    spec = make_spec(rng, sizes, nnz)
    rows = {"chroms": len(sizes), "bins": sum(sizes), "pixels": len(spec["pixels"])}
    ex = {}
    for ti, table in enumerate(("chroms", "bins", "pixels")):
        pre = table[0] + "_"
        cols = [make_column(rng, (pre + "chromstate") if table == "bins" and rot % 2 else pre + "cat", "cat",
                            rows[table], variant=rot + 2 * ti)]
        for q in range(3):
            kind = PLAIN_KINDS[(3 * rot + q + 4 * ti) % len(PLAIN_KINDS)]
            cols.append(make_column(rng, pre + kind, kind, rows[table]))
        if rot % 3 == 2:
            cols.append(make_column(rng, pre + "cat2", "cat", rows[table], variant=rot + ti + 3))
        ex[table] = cols
    spec["extras"] = ex
    return spec


def _bins_df(spec):
    chrom, start, end = [], [], []
    for c, k in enumerate(spec["sizes"]):
        for b in range(k):
            chrom.append(_chromname(spec, c))
            start.append(10 * b)
            end.append(10 * b + (10 if b < k - 1 else 7))
    names = [_chromname(spec, c) for c in range(len(spec["sizes"]))]
    df = pd.DataFrame({
        "chrom": pd.Categorical(chrom, categories=names, ordered=True),
        "start": np.array(start, dtype=np.int64), "end": np.array(end, dtype=np.int64),
        "weight": np.array([np.nan if w is None else w for w in spec["weight"]], dtype=np.float64),
        "mychrom": np.array(spec["mychrom"], dtype=np.int32)})
    for col in extras(spec, "bins"):
        if col["kind"] not in RAW_KINDS:
            df[col["name"]] = col_array(col)
    return df


RAW_KINDS = ("bytes", "vstr")     # written with h5py directly (fixed-length / variable-length strings)


def _pixels_df(spec):
    px = spec["pixels"]
    df = pd.DataFrame({
        "bin1_id": np.array([p[0] for p in px], dtype=np.int64),
        "bin2_id": np.array([p[1] for p in px], dtype=np.int64),
        "count": np.array([p[2] for p in px], dtype=np.int32),
        "extra": np.array([np.nan if p[3] is None else p[3] for p in px], dtype=np.float64)})
    for col in extras(spec, "pixels"):
        if col["kind"] not in RAW_KINDS and col["kind"] != "cat":
            df[col["name"]] = col_array(col)
    return df


_CACHE = {}   # canonical spec -> path (per worker process)
_COUNTER = [0]


def store_path(spec, intchrom=False):
    """create (once per worker) the cooler described by `spec`; `intchrom`: bins/chrom rewritten as plain int32"""
    key = (json.dumps(spec, sort_keys=True), intchrom, os.getpid())
    p = _CACHE.get(key)
    if p and os.path.exists(p):
        return p
    if len(_CACHE) >= 6:
        for k in list(_CACHE)[:3]:
            try:
                os.unlink(_CACHE.pop(k))
            except OSError:
                pass
    _COUNTER[0] += 1
    p = os.path.join(gen.tmpdir(), f"c14-{os.getpid()}-{_COUNTER[0]}.cool")
    write_store(p, spec, intchrom)
    _CACHE[key] = p
    return p


def write_store(p, spec, intchrom):
    pix = _pixels_df(spec)
    cols = [c for c in pix.columns if c not in ("bin1_id", "bin2_id")]
    dtypes = {c: pix[c].dtype for c in cols if c != "count"}
    cooler.create_cooler(p, _bins_df(spec), pix, columns=cols, dtypes=dtypes, ordered=True)
    if intchrom or "extras" in spec:
        with h5py.File(p, "r+") as f:
            if intchrom:
                codes = f["bins/chrom"][:]
                del f["bins/chrom"]
                f["bins"].create_dataset("chrom", data=np.asarray(codes, dtype=np.int32))
            for table in ("chroms", "bins", "pixels"):
                for col in extras(spec, table):
                    if col["name"] in f[table]:
                        continue
                    if col["kind"] == "vstr":
                        f[table].create_dataset(col["name"], data=col_array(col), dtype=h5py.string_dtype())
                    elif col["kind"] == "bytes":
                        f[table].create_dataset(col["name"], data=col_array(col))
                    else:
                        # the library's own column writer (categoricals become HDF5 enums, missing = -1)
                        cooler.core.put(f[table], pd.DataFrame({col["name"]: col_array(col)}))


# ----------------------------------------------------------------------------------------------
# canonical forms
# ----------------------------------------------------------------------------------------------

def cellj(x):
    if x is None or x is pd.NA or x is pd.NaT:
        return None
    if isinstance(x, bytes):
        return x.decode()
    if isinstance(x, str):
        return str(x)
    if isinstance(x, (bool, np.bool_)):
        return int(x)
    if isinstance(x, (int, np.integer)):
        return int(x)
    if isinstance(x, (float, np.floating)):
        x = float(x)
        return None if math.isnan(x) else {"f": repr(x)}
    raise AssertionError(f"unexpected cell {x!r} of type {type(x)}")


def framej(df):
    """DataFrame / Series -> the driver's frame (values as Python scalars, labels as ints)"""
    if isinstance(df, pd.Series):
        vals = df.tolist()
        return {"cols": [None], "index": [int(i) for i in df.index], "rows": [[cellj(v)] for v in vals], "series": True}
    cols = [df.iloc[:, j].tolist() for j in range(df.shape[1])]
    rows = [[cellj(c[k]) for c in cols] for k in range(len(df))]
    return {"cols": [str(c) for c in df.columns], "index": [int(i) for i in df.index], "rows": rows, "series": False}


def same_frame(impl, model):
    """equality of canonical frames; the name of a Series is not compared"""
    if impl["series"] != model["series"]:
        return False
    if not impl["series"] and impl["cols"] != model["cols"]:
        return False
    return impl["index"] == model["index"] and impl["rows"] == model["rows"]


def storedj(grp):
    """raw HDF5 table -> the driver's stored table (columns in key order, enum header, raw cells)"""
    cols, data = [], []
    for name in grp.keys():
        ds = grp[name]
        en = h5py.check_dtype(enum=ds.dtype)
        if en is not None:
            enc = {"enum": [[str(k), int(v)] for k, v in en.items()]}
        elif np.issubdtype(ds.dtype, np.integer):
            enc = "int"
        else:
            enc = "other"
        cols.append([name, enc])
        data.append(ds[:].tolist())
    n = len(data[0]) if data else 0
    rows = [[cellj(col[k]) for col in data] for k in range(n)]
    return {"cols": cols, "rows": rows}


def read_store(path):
    with h5py.File(path, "r") as f:
        out = {t: storedj(f[t]) for t in ("chroms", "bins", "pixels")}
        out["names"] = [x.decode() if isinstance(x, bytes) else str(x) for x in f["chroms/name"][:].tolist()]
        out["n"] = {"chroms": int(f.attrs["nchroms"]), "bins": int(f.attrs["nbins"]), "pixels": int(f.attrs["nnz"])}
        out["chrom_offset"] = [int(x) for x in f["indexes/chrom_offset"][:]]
        out["bin1_offset"] = [int(x) for x in f["indexes/bin1_offset"][:]]
    return out


def fetch_keys(spec, st, table, parts=True):
    """`sel.fetch(region)` for every whole chromosome (by name) and, with `parts`, every bin-aligned part of one (as a
    `(name, start, end)` tuple or a `name:start-end` string): the region and the stored row range `[lo, hi)` it denotes
    (bins: the bins of the region; pixels: the rows whose first bin is one of them, from the stored `bin1_offset`)"""
    out = []
    for c, k in enumerate(spec["sizes"]):
        name, off = st["names"][c], st["chrom_offset"][c]
        length = 10 * (k - 1) + 7
        regions = [(name, 0, k)]
        if parts:
            regions += [((name, 10 * a, 10 * b if b < k else length) if (a + b) % 2 else
                         f"{name}:{10 * a}-{10 * b if b < k else length}", a, b)
                        for a in range(k) for b in range(a + 1, k + 1) if (a, b) != (0, k)]
        for region, a, b in regions:
            lo, hi = off + a, off + b
            if table == "pixels":
                lo, hi = st["bin1_offset"][lo], st["bin1_offset"][hi]
            out.append([list(region) if isinstance(region, tuple) else region, lo, hi])
    return out


def npkey(key):
    """the same row key spelled with numpy integers"""
    if key[0] == "k":
        return np.int64(key[1])
    return slice(*[None if b is None else np.int64(b) for b in key[1:3]])


def keyj(key):
    return {"scalar": key[1]} if key[0] == "k" else {"slice": [key[1], key[2]]}


def pykey(key):
    return key[1] if key[0] == "k" else slice(key[1], key[2])


def all_keys(n):
    """every slice with bounds in [-n, n] U {None, n+1, n+1000} (bounds beyond the end are clipped like Python
    slices) and every scalar in [-n, n)"""
    bounds = [None] + list(range(-n, n + 1)) + [n + 1, n + 1000]
    out = [["s", a, b] for a in bounds for b in bounds]
    out += [["k", k] for k in range(-n, n)]
    return out


def guarded_frame(f):
    try:
        return {"ok": framej(f())}
    except Exception as e:  # noqa
        return {"err": errclass(e)}


def same_result(impl, model):
    if "err" in impl or "err" in model:
        return impl.get("err") == model.get("err") and "err" in impl and "err" in model
    return same_frame(impl["ok"], model["ok"])


# ----------------------------------------------------------------------------------------------
# checks
# ----------------------------------------------------------------------------------------------

def _selector(c, table, join):
    if table == "chroms":
        return c.chroms()
    if table == "bins":
        return c.bins()
    return c.pixels(join=join)


def _apply_colkeys(sel, colkeys):
    for k in colkeys:
        sel = sel[k]
    return sel


def _select(case, intchrom=False):
    spec, table, colkeys = case["store"], case["table"], case["colkeys"]
    join = bool(case.get("join", False))
    path = store_path(spec, intchrom=intchrom)
    st = read_store(path)
    n = st["n"][table]
    keys = case.get("keys") or all_keys(n)
    # parts of chromosomes with the default columns and on the stores with extra columns; whole chromosomes always
    fkeys = fetch_keys(spec, st, table, parts=not colkeys or "extras" in spec) \
        if table != "chroms" and case.get("fetch", True) else []
    args = {"src": table, "table": st[table], "nmax": n, "colkeys": colkeys,
            "keys": [keyj(k) for k in keys] + [{"slice": [lo, hi]} for _, lo, hi in fkeys]}
    if table == "bins":
        args["names"] = st["names"]
    if table == "pixels":
        args["join"] = join
        if join:
            args["bins"] = st["bins"]
    ans = drv().ask("C14.select", **args)
    handle = None
    if case.get("via") == "handle":
        handle = h5py.File(path, "r")
        c = cooler_call(cooler.Cooler, handle)
    else:
        c = cooler_call(cooler.Cooler, path)
    try:
        sel = _apply_colkeys(_selector(c, table, join), colkeys)
        last = colkeys[-1] if colkeys else None
        degenerate = isinstance(last, list) and len(last) == 0
        check_spec = not degenerate and (not join or not colkeys)
        bad, stats = [], {"in_domain": 0, "out_of_domain": 0, "ood_model_agrees": 0, "fetch": 0}
        for key, a in zip(keys, ans):
            impl = guarded_frame(lambda: sel[pykey(key)])
            if not a["in_domain"] or degenerate:
                # outside the statement (literals beyond [-n, n] never generated; reversed ranges; empty
                # column list): observed, never an alarm
                stats["out_of_domain"] += 1
                stats["ood_model_agrees"] += int(same_result(impl, a["model"]))
                continue
            stats["in_domain"] += 1
            if check_spec and a["model"] != a["spec"]:
                raise AssertionError(f"L1 != L0 on {table} {colkeys} {key}: {a['model']} vs {a['spec']}")
            if not same_result(impl, a["model"]):
                bad.append({"key": key, "impl": impl, "model": a["model"]})
            if stats["in_domain"] % 5 == 0:
                # `sel[(key,)]` is `sel[key]`; a longer tuple is an IndexError
                t1 = guarded_frame(lambda: sel[(pykey(key),)])
                t2 = guarded_frame(lambda: sel[(pykey(key), pykey(key))])
                if not same_result(t1, a["tuple1"]) or not same_result(t2, a["tuple2"]):
                    bad.append({"key": key, "tuple_forms": True, "impl": [t1, t2], "model": [a["tuple1"], a["tuple2"]]})
            if stats["in_domain"] % 11 == 3:
                # the same key spelled with numpy integers
                t3 = guarded_frame(lambda: sel[npkey(key)])
                if not same_result(t3, a["model"]):
                    bad.append({"key": key, "numpy_integers": True, "impl": t3, "model": a["model"]})
        if not degenerate:
            for (region, lo, hi), a in zip(fkeys, ans[len(keys):]):
                # `sel.fetch(region)`: the rows of the region's extent
                arg = tuple(region) if isinstance(region, list) else region
                impl = guarded_frame(lambda: sel.fetch(arg))
                stats["fetch"] += 1
                if check_spec and a["model"] != a["spec"]:
                    raise AssertionError(f"L1 != L0 on {table} {colkeys} fetch {region}: {a['model']} vs {a['spec']}")
                if not same_result(impl, a["model"]):
                    bad.append({"key": ["fetch", region, lo, hi], "impl": impl, "model": a["model"]})
    finally:
        if handle is not None:
            handle.close()
    if bad:
        return {"mismatch": True, "n_keys_failing": len(bad), "first": bad[:3], "failing_keys": [b["key"] for b in bad[:40]]}
    return {"stats": stats}


def _chrom_decode(case):
    """integer chromosome encoding: against the model on the integer table, and against the enum file"""
    r = _select(case, intchrom=True)
    if r and r.get("mismatch"):
        r["note"] = "integer-encoded bins/chrom: implementation differs from `binsGet`"
        return r
    spec, colkeys = case["store"], case["colkeys"]
    n = sum(spec["sizes"])
    keys = case.get("keys") or all_keys(n)
    ce = cooler_call(cooler.Cooler, store_path(spec, intchrom=False))
    ci = cooler_call(cooler.Cooler, store_path(spec, intchrom=True))
    se = _apply_colkeys(ce.bins(), colkeys)
    si = _apply_colkeys(ci.bins(), colkeys)
    bad = []
    for key in keys:
        if key[0] == "s":
            a = drv().ask("C14.process", n=n, keys=[keyj(key)])[0]
            if not a["in_domain"]:
                continue
        e = guarded_frame(lambda: se[pykey(key)])
        i = guarded_frame(lambda: si[pykey(key)])
        if not same_result(e, i):
            bad.append({"key": key, "enum": e, "int": i})
    if bad:
        return {"mismatch": True, "note": "enum and integer encodings give different tables", "first": bad[:3],
                "failing_keys": [b["key"] for b in bad[:40]]}
    return r


def _commutes(case):
    spec, table, cols = case["store"], case["table"], case["cols"]
    path = store_path(spec)
    c = cooler_call(cooler.Cooler, path)
    n = read_store(path)["n"][table]
    keys = case.get("keys") or all_keys(n)
    base = _selector(c, table, False)
    sub = base[cols]
    dom = drv().ask("C14.process", n=n, keys=[keyj(k) for k in keys])
    bad = []
    for key, d in zip(keys, dom):
        if not d["in_domain"]:
            continue
        full = guarded_frame(lambda: base[pykey(key)])
        part = guarded_frame(lambda: sub[pykey(key)])
        if "err" in full:
            bad.append({"key": key, "full": full})
            continue
        want = drv().ask("C14.project", frame=full["ok"], cols=cols)
        if not same_result(part, want):
            bad.append({"key": key, "impl_sel_cols_key": part, "project_of_impl_sel_key": want})
    if bad:
        return {"mismatch": True, "first": bad[:3], "failing_keys": [b["key"] for b in bad[:40]]}
    return None


def _range_index(index):
    """the pandas RangeIndex with these labels (an arithmetic progression)"""
    if len(index) == 0:
        return pd.RangeIndex(3, 3)
    if len(index) == 1:
        return pd.RangeIndex(index[0], index[0] + 1)
    step = index[1] - index[0]
    r = pd.RangeIndex(index[0], index[-1] + step, step)
    assert list(r) == index, (list(r), index)
    return r


IDTYPES = {"int64": np.int64, "int32": np.int32, "uint8": np.uint8, "uint16": np.uint16, "uint32": np.uint32}


def all_forms(n, ids, with_selector=True):
    """whole frame, selector, every contiguous part [b0, b1) that contains every id (all parts when no id)"""
    forms = ["whole"] + (["selector"] if with_selector else [])
    lo = min(ids) if ids else None
    hi = max(ids) if ids else None
    for b0 in range(n + 1):
        for b1 in range(b0, n + 1):
            if ids and not (b0 <= lo and hi < b1):
                continue
            forms.append({"part": [b0, b1]})
    return forms


def _annotate(case):
    spec, fields, replace = case["store"], case.get("fields"), case["replace"]
    pxcols, pxrows, index = case["cols"], case["rows"], case["index"]
    idtype = IDTYPES[case.get("idtype", "int64")]
    path = store_path(spec)
    st = read_store(path)
    n = st["n"]["bins"]
    c = cooler_call(cooler.Cooler, path)
    colkinds = case.get("colkinds", {})

    def build(rows):
        data = {}
        for j, name in enumerate(pxcols):
            col = [r[j] for r in rows]
            if name in ("bin1_id", "bin2_id"):
                data[name] = np.array(col, dtype=idtype)
            elif name == "count":
                data[name] = np.array(col, dtype=np.int32)
            elif name in colkinds:
                # an extra pixel column of any kind, as it sits in the frame the user holds
                data[name] = col_array(colkinds[name], values=col, frame=True)
            else:
                data[name] = np.array([np.nan if v is None else v for v in col], dtype=np.float64)
        return data

    data = build(pxrows)
    kind = case.get("index_kind", "int64")
    if kind == "iloc":
        # a positional slice / reversal / stride of a frame carrying pandas' default index
        pixels = pd.DataFrame(build(case["base_rows"]), columns=pxcols).iloc[slice(*case["sl"])]
    elif kind == "range":
        pixels = pd.DataFrame(data, columns=pxcols, index=_range_index(index))
    elif kind == "default":
        pixels = pd.DataFrame(data, columns=pxcols)
    else:
        pixels = pd.DataFrame(data, columns=pxcols, index=pd.Index(index, dtype=IDTYPES.get(kind, np.int64)))
    if [int(i) for i in pixels.index] != index or len(pixels) != len(pxrows):
        raise AssertionError(f"harness built a pixel frame with index {list(pixels.index)} instead of {index}")
    ids = [r[j] for r in pxrows for j, name in enumerate(pxcols) if name in ("bin1_id", "bin2_id")]
    forms = case.get("forms") or all_forms(n, ids)
    sel = c.bins() if fields is None else c.bins()[fields]
    whole = cooler_call(lambda: sel[:])
    pxj = {"cols": pxcols, "index": index, "series": False,
           "rows": [[cellj(v) for v in r] for r in pxrows]}
    if framej(pixels)["rows"] != pxj["rows"]:
        raise AssertionError(f"harness built a pixel frame with cells {framej(pixels)['rows']} instead of {pxj['rows']}")
    ans = drv().ask("C14.annotate", table=st["bins"], names=st["names"], fields=fields, pixels=pxj,
                    replace=replace, forms=forms)
    two_sided = "bin1_id" in pxcols and "bin2_id" in pxcols
    bad, stats = [], {"forms": 0, "branch_window": 0, "branch_whole": 0}
    for form, a in zip(forms, ans):
        if form == "whole":
            bins = whole
        elif form == "selector":
            bins = sel
        else:
            bins = whole.iloc[form["part"][0]:form["part"][1]]
        if two_sided and a["model"] != a["spec"]:
            raise AssertionError(f"L1 != L0 for annotate form {form}: {a['model']} vs {a['spec']}")
        impl = guarded_frame(lambda: cooler.annotate(pixels, bins, replace=replace))
        stats["forms"] += 1
        if pxrows:
            stats["branch_window" if len(bins) > len(pxrows) else "branch_whole"] += 1
        if not same_result(impl, a["model"]):
            bad.append({"form": form, "impl": impl, "model": a["model"]})
    if bad:
        return {"mismatch": True, "n_forms_failing": len(bad), "first": bad[:3],
                "failing_forms": [b["form"] for b in bad[:40]]}
    return {"stats": stats}


def _process_slice(case):
    n = case["n"]
    keys = all_keys(n)
    ans = drv().ask("C14.process", n=n, keys=[keyj(k) for k in keys])
    mixin = _IndexingMixin()
    bad = []
    for key, a in zip(keys, ans):
        if not a["in_domain"]:
            continue
        if key[0] == "s" and a["narrow"] and a["model"].get("ok") != a["indices"]:
            raise AssertionError(f"processSlice_spec contradicted on n={n} {key}: {a}")
        try:
            r = mixin._process_slice(pykey(key), n)
            impl = {"ok": [int(r[0]), int(r[1])]}
        except Exception as e:  # noqa
            impl = {"err": errclass(e)}
        if impl != a["model"]:
            bad.append({"key": key, "impl": impl, "model": a["model"]})
    if bad:
        return {"mismatch": True, "first": bad[:5]}
    return None


def _sequence(case):
    """one process, one path: read the bin table, change the chromosome names stored at that path
    (`cooler.rename_chroms`, or another cooler written over it), read again — every read must show what is
    stored NOW (the model is evaluated on the raw tables re-read after the change)"""
    spec, intchrom, mode = case["store"], case["intchrom"], case["mode"]
    _COUNTER[0] += 1
    path = os.path.join(gen.tmpdir(), f"c14-seq-{os.getpid()}-{_COUNTER[0]}.cool")
    bad = []

    def observe(phase, coolers):
        st = read_store(path)
        n, nnz = st["n"]["bins"], st["n"]["pixels"]
        reads = [("bins", [], ["s", None, None]), ("bins", ["chrom"], ["s", 1 if n > 1 else 0, None]),
                 ("bins", [["chrom", "end"]], ["k", -1]), ("bins", [["start", "chrom"]], ["s", None, n + 1]),
                 ("chroms", [], ["s", None, None]), ("pixels", [], ["s", None, None])]
        for who, c in coolers:
            for table, colkeys, key in reads:
                join = table == "pixels"
                args = {"src": table, "table": st[table], "nmax": st["n"][table], "colkeys": colkeys, "keys": [keyj(key)]}
                if table == "bins":
                    args["names"] = st["names"]
                if join:
                    args["join"], args["bins"] = True, st["bins"]
                a = drv().ask("C14.select", **args)[0]
                sel = _apply_colkeys(_selector(c, table, join), colkeys)
                impl = guarded_frame(lambda: sel[pykey(key)])
                if not same_result(impl, a["model"]):
                    bad.append({"phase": phase, "cooler": who, "read": [table, colkeys, key], "impl": impl, "model": a["model"]})
            # annotation against the selector and against the frame materialised from it
            pixels = cooler_call(lambda: c.pixels()[:])
            pxj = framej(pixels)
            forms = ["selector", "whole"]
            ans = drv().ask("C14.annotate", table=st["bins"], names=st["names"], fields=None, pixels=pxj,
                            replace=False, forms=forms)
            for form, a in zip(forms, ans):
                bins = c.bins() if form == "selector" else cooler_call(lambda: c.bins()[:])
                impl = guarded_frame(lambda: cooler.annotate(pixels, bins, replace=False))
                if nnz and a["model"] != a["spec"]:
                    raise AssertionError(f"L1 != L0 for annotate form {form}")
                if not same_result(impl, a["model"]):
                    bad.append({"phase": phase, "cooler": who, "read": ["annotate", form], "impl": impl, "model": a["model"]})

    try:
        write_store(path, spec, intchrom)
        c = cooler_call(cooler.Cooler, path)
        observe("before", [("first", c)])
        if mode == "rename":
            cooler_call(cooler.rename_chroms, c, case["rename"])
            observe("after rename_chroms", [("same object", c), ("fresh object", cooler_call(cooler.Cooler, path))])
        else:
            os.unlink(path)
            write_store(path, case["store2"], intchrom)
            observe("after another cooler was written to the path", [("fresh object", cooler_call(cooler.Cooler, path))])
    finally:
        if os.path.exists(path):
            os.unlink(path)
    if bad:
        return {"mismatch": True, "n_reads_failing": len(bad), "first": bad[:3]}
    return None


CHECKS = {"select": _select, "commutes": _commutes, "annotate": _annotate, "chrom_decode": _chrom_decode,
          "process_slice": _process_slice, "sequence": _sequence}


# ----------------------------------------------------------------------------------------------
# case generation
# ----------------------------------------------------------------------------------------------

def colkey_variants(table, rng, full):
    cols = BASE_COLS[table]
    out = [[]]
    out += [[c] for c in cols]                               # single name: Series selector
    subsets = [list(s) for r in range(1, len(cols) + 1) for s in itertools.combinations(cols, r)]
    if not full and len(subsets) > 12:
        keep = [s for s in subsets if len(s) == 1 or len(s) == len(cols)]
        rest = [s for s in subsets if s not in keep]
        subsets = keep + rng.sample(rest, 6)
    out += [[s] for s in subsets]
    out.append([list(reversed(cols))])                       # a reordered list
    out.append([cols[:2], cols[1]])                          # chained: the last key replaces the first
    out.append([cols[0], cols[-2:]])
    out.append([[]])                                         # empty list: outside the statement, observed only
    return out


def sample_keys(n, rng, m):
    """every scalar, the whole-table slice and `m` other row keys drawn from `all_keys(n)`"""
    keys = all_keys(n)
    scalars = [k for k in keys if k[0] == "k"]
    slices = [k for k in keys if k[0] == "s" and k != ["s", None, None]]
    return [["s", None, None]] + scalars + rng.sample(slices, min(m, len(slices)))


def rich_colkeys(spec, table, rng):
    """column keys of a store with extra columns: default, every extra column alone (a Series), all columns, a
    reordered list, lists mixing standard and extra columns, chained keys; with each whether ALL row keys are read"""
    base, ex = BASE_COLS[table], [c["name"] for c in extras(spec, table)]
    cols = base + ex
    out = [([], True)]
    out += [([c], False) for c in ex]
    out.append(([list(reversed(cols))], True))
    for _ in range(3):
        pick = rng.sample(ex, rng.randint(1, len(ex))) + rng.sample(base, rng.randint(0, 2))
        rng.shuffle(pick)
        out.append(([pick], False))
    out.append(([base[:2], ex], False))                      # chained: the last key replaces the first
    out.append(([ex, ex[0]], False))
    return out


def layouts(maxn):
    for k in (1, 2, 3):
        for sizes in itertools.product(range(1, maxn + 1), repeat=k):
            if sum(sizes) <= maxn:
                yield list(sizes)


def pixel_frames(spec, rng, thorough, light=False):
    """(cols, rows, index, idtype, replace, fields) for the annotate check on one store; the pixel frames carry the
    store's extra pixel columns (any kind) and the bin table its extra bin columns; `light`: a thinner spread"""
    pex, bex = extras(spec, "pixels"), [c["name"] for c in extras(spec, "bins")]
    px = [list(p) + [c["values"][i] for c in pex] for i, p in enumerate(spec["pixels"])]
    n = sum(spec["sizes"])
    cols = table_cols(spec, "pixels")
    if pex:
        kinds = {c["name"]: {k: v for k, v in c.items() if k not in ("values", "name")} for c in pex}
        for fr in _pixel_frames(spec, rng, thorough, light, px, n, cols, bex, [c["name"] for c in pex]):
            yield {**fr, "colkinds": kinds}
    else:
        yield from _pixel_frames(spec, rng, thorough, light, px, n, cols, bex, [])


def _pixel_frames(spec, rng, thorough, light, px, n, cols, bex, pexn):
    seqs = [list(s) for r in range(0, 3 if light else 4) for s in itertools.product(range(len(px)), repeat=r)]
    for q, s in enumerate(seqs):
        rows = [px[k] for k in s]
        for replace in (False, True):
            # the labels 0..m-1 once as pandas' default RangeIndex, once as an int64 Index
            yield {"cols": cols, "rows": rows, "index": list(range(len(rows))), "replace": replace,
                   "index_kind": "default" if (q + replace) % 2 else "int64"}
    # positional slices, reversals and strides of a default-indexed frame: a RangeIndex that is not 0..m-1
    base = [px[k] for k in range(len(px))] * 2
    M = len(base)
    slices = [[a, b, 1] for a in range(M + 1) for b in range(a, M + 1) if (a, b) != (0, M) and b - a <= 4]
    slices += [[None, None, -1], [None, None, 2], [1, None, 2], [None, None, 3], [M - 1, 0, -2], [0, M, 1]]
    if light:
        slices = slices[::7] + slices[-6:]
    elif not thorough:
        slices = slices[::3] + slices[-6:]
    for q, sl in enumerate(slices):
        rows = base[slice(*sl)]
        index = list(range(M))[slice(*sl)]
        yield {"cols": cols, "rows": rows, "index": index, "replace": bool(q % 2), "index_kind": "iloc",
               "base_rows": base, "sl": sl}
    for q, (start, step, m) in enumerate([(10, 1, 3), (7, -1, 3), (6, 7, 2), (5, 1, 1), (0, 2, 3), (4, 1, 0), (-3, 1, 4)]):
        if not px:
            continue
        s = [rng.randrange(len(px)) for _ in range(m)]
        yield {"cols": cols, "rows": [px[k] for k in s], "index": [start + step * t for t in range(m)],
               "replace": bool(q % 2), "index_kind": "range"}
        yield {"cols": cols, "rows": [px[k] for k in s], "index": [start + step * t for t in range(m)],
               "replace": not bool(q % 2), "index_kind": rng.choice(["int32", "int64", "uint8" if start >= 0 and step > 0 else "int64"])}
    # index labels other than 0..m-1, id dtypes, selector with a column list, reordered pixel columns
    extra = []
    for _ in range(5 if light else 24 if thorough else 10):
        m = rng.randint(1, 3)
        s = [rng.randrange(len(px)) for _ in range(m)] if px else []
        rows = [px[k] for k in s]
        style = rng.choice(["offset", "shuffled", "stored"])
        if style == "offset":
            index = list(range(10, 10 + len(rows)))
        elif style == "shuffled":
            index = rng.sample(range(0, 50), len(rows))
        else:
            index = s
        extra.append({"cols": cols, "rows": rows, "index": index, "replace": rng.random() < 0.5,
                      "idtype": rng.choice(list(IDTYPES))})
    # long lists: more pixels than bins (the `0..None` strategy for every bin-table form)
    for m in ((n, n + 1, 2 * n + 3) if thorough else (n, n + 2)):
        if not px:
            continue
        s = [rng.randrange(len(px)) for _ in range(m)]
        if rng.random() < 0.5:
            s = (list(range(len(px))) * m)[:m]
        extra.append({"cols": cols, "rows": [px[k] for k in s], "index": list(range(100, 100 + m)),
                      "replace": rng.random() < 0.5, "idtype": rng.choice(list(IDTYPES))})
    # arbitrary id pairs (not stored pixels, lower triangle included)
    for _ in range(6 if thorough else 3):
        m = rng.randint(1, 4)
        if pexn:
            rows = [[rng.randrange(n), rng.randrange(n)] + rng.choice(px)[2:] for _ in range(m)]
        else:
            rows = [[rng.randrange(n), rng.randrange(n), rng.randint(1, 9), rng.choice(EXTRAS)] for _ in range(m)]
        extra.append({"cols": cols, "rows": rows, "index": list(range(m)), "replace": rng.random() < 0.5})
    # bin selector restricted to a column list / pixel frame with other column orders / one id column only
    fieldsets = [["chrom", "start", "end"], ["start", "weight"], ["weight", "chrom", "mychrom"]]
    if bex:
        # the bin selector restricted to extra columns (`<col>1`, `<col>2` of every kind), alone and mixed
        fieldsets += [[bex[0]], list(reversed(bex)) + ["chrom"], ["end"] + bex[1:3]]
    for k, fields in enumerate(fieldsets):
        if not px:
            continue
        s = [rng.randrange(len(px)) for _ in range(rng.randint(1, 3))]
        extra.append({"cols": cols, "rows": [px[i] for i in s], "index": list(range(len(s))),
                      "replace": bool(k % 2), "fields": fields})
    perms = [["count", "bin2_id", "extra", "bin1_id"], ["bin1_id", "count"], ["extra", "bin2_id"]]
    if pexn:
        perms += [list(reversed(pexn)) + ["bin2_id", "bin1_id"], ["bin1_id"] + pexn[:2]]
    for perm in perms:
        if not px:
            continue
        s = [rng.randrange(len(px)) for _ in range(rng.randint(1, 3))]
        rows = [[px[i][cols.index(cn)] for cn in perm] for i in s]
        for replace in (False, True):
            extra.append({"cols": perm, "rows": rows, "index": list(range(5, 5 + len(s))), "replace": replace})
    yield from extra


def cases(tier, rng):
    thorough = tier == "thorough"
    for n in range(0, 9 if thorough else 7):
        yield "process_slice", {"n": n}
    stores = []
    for sizes in layouts(5 if thorough else 4):
        n = sum(sizes)
        stores.append(make_spec(rng, sizes, rng.randint(1, min(5, n * (n + 1) // 2))))
    for _ in range(16 if thorough else 6):
        k = rng.randint(1, 3)
        maxn = 8 if thorough else 6
        sizes = [1] * k
        for _ in range(rng.randint(0, maxn - k)):
            sizes[rng.randrange(k)] += 1
        n = sum(sizes)
        m = min(7 if thorough else 5, n * (n + 1) // 2)
        stores.append(make_spec(rng, sizes, rng.randint(min(2, m), m)))
    stores.append(make_spec(rng, [2, 1], 0))           # no pixel at all
    stores.append(make_spec(rng, [6] if not thorough else [8], 5))
    for si, spec in enumerate(stores):
        full = thorough or si % 4 == 0
        for table in ("chroms", "bins", "pixels"):
            for ck in colkey_variants(table, rng, full):
                yield "select", {"store": spec, "table": table, "colkeys": ck, "via": "handle" if si % 3 == 1 else "path"}
        yield "select", {"store": spec, "table": "pixels", "colkeys": [], "join": True}
        yield "select", {"store": spec, "table": "pixels", "colkeys": [["bin1_id", "count"]], "join": True}
        yield "select", {"store": spec, "table": "pixels", "colkeys": [["extra", "bin2_id", "bin1_id"]], "join": True}
        for ck in ([], ["chrom"], [["chrom"]], [["start", "chrom"]], [["weight", "chrom", "mychrom"]], ["mychrom"], ["start"]):
            yield "chrom_decode", {"store": spec, "table": "bins", "colkeys": ck}
        for table in ("chroms", "bins", "pixels"):
            cols = BASE_COLS[table]
            subsets = [list(s) for r in range(1, len(cols) + 1) for s in itertools.combinations(cols, r)]
            subsets += [c for c in cols]
            if not full:
                subsets = rng.sample(subsets, min(6, len(subsets)))
            for s in subsets:
                yield "commutes", {"store": spec, "table": table, "cols": s}
    # call sequences: names stored at a path change between two reads of the same process
    for si, spec in enumerate(stores if thorough else stores[::2]):
        k = len(spec["sizes"])
        renames = [{gen.chromname(0): "zz"}, {gen.chromname(k - 1): "a_renamed", gen.chromname(0): "c9"}]
        spec2 = dict(spec)
        spec2["prefix"] = "other"
        for intchrom in (False, True):
            yield "sequence", {"store": spec, "intchrom": intchrom, "mode": "rename", "rename": renames[si % 2]}
            yield "sequence", {"store": spec, "intchrom": intchrom, "mode": "replace", "store2": spec2}
    # annotate: on every small layout in thorough, on a spread of them in quick
    ann_stores = stores if thorough else stores[::3] + stores[-2:]
    for spec in ann_stores:
        small = dict(spec)
        if len(small["pixels"]) > (5 if thorough else 4):
            small["pixels"] = small["pixels"][: (5 if thorough else 4)]
        for fr in pixel_frames(small, rng, thorough):
            yield "annotate", {"store": small, **fr}
    # stores whose chromosome, bin and pixel tables hold extra columns of every kind (categorical / enum: ordered or
    # not, categories that never occur, missing entries, int16 codes; fixed- and variable-length strings; every
    # integer width at its limits; float32/64 with NaN; bool), read through every selector entry
    for ri in range(13 if thorough else 5):
        k = 1 + ri % 3
        sizes = [1] * k
        for _ in range(rng.randint(1, 5 - k)):
            sizes[rng.randrange(k)] += 1
        n = sum(sizes)
        m = min(4, n * (n + 1) // 2)
        spec = make_rich_spec(rng, sizes, rng.randint(min(2, m), m), ri)
        nrows = {"chroms": k, "bins": n, "pixels": len(spec["pixels"])}
        via = "handle" if ri % 2 else "path"
        for table in ("chroms", "bins", "pixels"):
            ex = [c["name"] for c in extras(spec, table)]
            for ck, allkeys in rich_colkeys(spec, table, rng):
                case = {"store": spec, "table": table, "colkeys": ck, "via": via}
                if not allkeys:
                    case["keys"] = sample_keys(nrows[table], rng, 24)
                yield "select", case
            for cols in (ex, ex[0], [ex[-1], BASE_COLS[table][0], ex[0]], BASE_COLS[table][1:] + ex[1:2]):
                yield "commutes", {"store": spec, "table": table, "cols": cols, "keys": sample_keys(nrows[table], rng, 24)}
        pex = [c["name"] for c in extras(spec, "pixels")]
        yield "select", {"store": spec, "table": "pixels", "colkeys": [], "join": True}
        yield "select", {"store": spec, "table": "pixels", "colkeys": [list(reversed(pex)) + ["bin2_id", "bin1_id"]],
                         "join": True, "keys": sample_keys(nrows["pixels"], rng, 24)}
        bex = [c["name"] for c in extras(spec, "bins")]
        for ck in ([], [bex[0]], [[bex[0], "chrom", bex[-1]]], [bex]):
            case = {"store": spec, "table": "bins", "colkeys": ck}
            if ck:
                case["keys"] = sample_keys(n, rng, 24)
            yield "chrom_decode", case
        spec2 = dict(spec)
        spec2["prefix"] = "other"
        yield "sequence", {"store": spec, "intchrom": bool(ri % 2), "mode": "rename", "rename": {gen.chromname(0): "zz"}}
        yield "sequence", {"store": spec, "intchrom": not ri % 2, "mode": "replace", "store2": spec2}
        for fr in pixel_frames(spec, rng, thorough, light=True):
            yield "annotate", {"store": spec, **fr}


def nontrivial(name, case):
    if name == "process_slice":
        return case["n"] >= 2
    if name == "annotate":
        return len(case["rows"]) >= 1
    if name == "sequence":
        return True
    spec = case["store"]
    n = {"chroms": len(spec["sizes"]), "bins": sum(spec["sizes"]), "pixels": len(spec["pixels"])}[case["table"]]
    return n >= 2


def distribution(name, case):
    if name == "annotate":
        yield f"annotate.npixels={min(len(case['rows']), 4)}{'+' if len(case['rows']) > 4 else ''}"
        yield f"annotate.idtype={case.get('idtype', 'int64')}"
        yield f"annotate.index_kind={case.get('index_kind', 'int64')}"
    elif name == "sequence":
        yield f"sequence.{case['mode']}.{'int' if case['intchrom'] else 'enum'}"
    elif "store" in case:
        yield f"{name}.table={case['table']}"
        yield f"stores.nbins={sum(case['store']['sizes'])}"
    if "store" in case:
        for table in ("chroms", "bins", "pixels"):
            for col in extras(case["store"], table):
                sub = ""
                if col["kind"] == "cat":
                    sub = ("+missing" if None in col["values"] else "") + \
                          ("+unobserved" if set(col["cats"]) - set(col["values"]) else "") + \
                          ("+ordered" if col["ordered"] else "") + ("+int16" if len(col["cats"]) > 127 else "")
                yield f"column.{table}.{col['kind']}{sub}"


def _mentioned(case):
    """column names a case refers to"""
    out = set(case.get("cols") or []) | set(case.get("fields") or [])
    for ck in case.get("colkeys") or []:
        out |= {ck} if isinstance(ck, str) else set(ck)
    if isinstance(case.get("cols"), str):
        out.add(case["cols"])
    return out


def _drop_extras(case):
    """the same case on a store with fewer extra columns (never one the case names)"""
    spec = case["store"]
    ex = spec.get("extras")
    if not ex:
        return
    used = _mentioned(case)
    for table in ("chroms", "bins", "pixels"):
        if table == "pixels" and "rows" in case:
            continue                 # the annotate case's own pixel frame carries these columns
        keep = [c for c in ex[table] if c["name"] in used]
        if len(keep) < len(ex[table]):
            yield {**case, "store": {**spec, "extras": {**ex, table: keep}}}
        for col in ex[table]:
            if col["name"] not in used and len(ex[table]) - len(keep) > 1:
                yield {**case, "store": {**spec, "extras": {**ex, table: [c for c in ex[table] if c is not col]}}}


def shrink(name, case):
    if name in ("select", "chrom_decode", "commutes", "annotate", "sequence"):
        yield from _drop_extras(case)
    if name in ("select", "chrom_decode") and case.get("fetch", True):
        yield {**case, "fetch": False}
    if name in ("select", "chrom_decode", "commutes"):
        spec = case["store"]
        n = {"chroms": len(spec["sizes"]), "bins": sum(spec["sizes"]), "pixels": len(spec["pixels"])}[case["table"]]
        keys = case.get("keys") or all_keys(n)
        if len(keys) > 1:
            h = len(keys) // 2
            yield {**case, "keys": keys[:h]}
            yield {**case, "keys": keys[h:]}
    if name == "annotate":
        rows = case["rows"]
        for k in range(len(rows)):
            if len(rows) > 1 and case.get("index_kind", "int64") not in ("iloc", "range", "default"):
                yield {**case, "rows": rows[:k] + rows[k + 1:], "index": case["index"][:k] + case["index"][k + 1:]}
        spec = case["store"]
        ids = [r[j] for r in rows for j, nm in enumerate(case["cols"]) if nm in ("bin1_id", "bin2_id")]
        forms = case.get("forms") or all_forms(sum(spec["sizes"]), ids)
        if len(forms) > 1:
            h = len(forms) // 2
            yield {**case, "forms": forms[:h]}
            yield {**case, "forms": forms[h:]}


def escalate(name, case, rng):
    """`_process_slice` no longer matches `processKey`: look for a selector read that returns wrong rows"""
    if name != "process_slice":
        return None
    worker_init()
    r = random_store_search(rng)
    return r


def random_store_search(rng):
    for sizes in ([2, 1], [3], [1, 2, 2]):
        spec = make_spec(rng, sizes, 3)
        for table in ("chroms", "bins", "pixels"):
            c = {"store": spec, "table": table, "colkeys": []}
            r = _select(c)
            if r and r.get("mismatch"):
                return {"check": "select", "case": c, "result": r}
    return None
