"""C11 — balancing depends on the data only, not on chunking or scheduling.

Oracles are the Lean definitions of `lean/CoolerModel/Model/Split.lean` (ops `C11.*` of the driver):
`spans`, `partition`, the contract `CoversOnce`, and the exact-integer marginal of a balancing pass.
Nothing here decides the property: Python only builds coolers, runs the real code under different
chunk sizes / map functors and marshals what it observes.
"""
from __future__ import annotations

import itertools
import json
import os
import random
import sys
import warnings
from fractions import Fraction

import numpy as np
import pandas as pd

from harness import gen
from harness.common import ImplRaised, drv, errclass, impl

PID = "C11"
THEOREMS = ["spans_cover_once", "spans_cover_once'", "partition_cover_once", "splitDefault_cover_once",
            "spans_wellformed", "partition_wellformed", "cisSpans_ok",
            "coversOnceB_iff", "cover_perm", "visited_whole_nodup", "spansC_coversOnce", "partition_coversOnce",
            "spans_coversOnce", "marginal_split", "marginal_split_two", "margFn_append", "chunkFn_append",
            "balance_marginal_split", "pipeline_reduce_eq_whole", "balanceReduce_eq_whole",
            "balance_data_only", "code_chunkings_cover",
            "local_binarize", "local_zeroDiags", "local_zeroTrans", "local_zeroCis", "local_timesOuter",
            "observe_append_run", "run_after_write", "run_data_only", "run_repeat", "stored_append_write",
            "stored_append_write_ne", "stored_append_run"]
LEVELS = {"partition_unit": "unit", "spans_unit": "unit", "pipeline": "top", "pipe_reuse": "top", "balance_schedules": "top", "cli": "top",
          "hist_balance": "top", "hist_pipeline": "top"}
DESCRIBE = {
    "partition_unit": "cooler.util.partition(lo, hi, step) vs Lean `partition` and the contract `CoversOnce` (theorem partition_coversOnce)",
    "spans_unit": "the spans every pass of the real balance_cooler(chunksize=c) hands to its map (recorded), and split(clr, chunksize=c).keys: "
                  "Lean contract `CoversOnce` on the whole table / on each chromosome's rows (theorems spansC_coversOnce, partition_coversOnce)",
    "pipeline": "split(clr, spans, map).prepare(_init).pipe(filters).pipe(_timesouterproduct, w).pipe(_marginalize).reduce(add, zeros) on integer "
                "data and dyadic weights, under a map functor/schedule, bit for bit vs Lean `wholeMarginal` (theorem pipeline_reduce_eq_whole); "
                "visit log of the pixel rows read: each stored pixel exactly once (Lean `coversOnceB`)",
    "pipe_reuse": "one split() with keys given as chunksize=k (partition generator), list, tuple, generator or iterator of spans, then reduced, "
                  "branched into a second pipe (nnz marginal), reduced again, gathered and iterated: every run maps over covering spans, reads "
                  "every stored pixel once and returns Lean `wholeMarginal` / the per-chunk arrays of Lean `run`, bit for bit",
    "balance_schedules": "cooler.balance_cooler(chunksize=c, map=m) vs the chunksize=None/builtin-map run of the same cooler and options: NaN masks "
                         "and converged identical, weights/scale/var to 1e-9 relative, repeated runs identical; every pass's spans meet `CoversOnce`",
    "cli": "`cooler balance -p N --force` (Pool.imap_unordered) on a scratch copy vs the API reference run",
    "hist_balance": "a HISTORY in one process: coolers written at one or two URIs (files, or groups of one file), balanced, then REPLACED at the "
                    "same URI (other values / positions / chromosome layout with the same number of bins / other number of bins / other dtype) "
                    "and balanced again, through a fresh Cooler object or the same one (same chromosome table and nnz only): every "
                    "balance_cooler(chunksize, map, mode) result vs the exact-rational Lean model `IC.balance` on the content Lean `observe` "
                    "says is stored at that URI at that moment (theorem observe_append_run): NaN pattern, converged, scale, var, weights 1e-9",
    "hist_pipeline": "the same histories for cooler.parallel.split(...) pipelines built on the cooler at a URI before and after it is replaced: "
                     "marginal reductions (with _zero_trans/_zero_cis/_zero_diags/_binarize/weights) bit for bit vs Lean `wholeMarginal`, raw chunks "
                     "(which bins share a chromosome, pixel rows) vs Lean `chunkget`, on the content stored at that moment; keys cover once",
}
RULE = ("partition: every lo<=hi<=12 x step 1..hi-lo+2; spans: every nnz<=12 x chunksize 1..nnz+2 and None, genome-wide and cis-only; "
        "pipeline: small coolers (incl. empty, 1 pixel, empty rows/chromosomes) x filter stacks x EVERY chunksize 1..nnz+1 and None x "
        "{builtin map, lazy generator, eager list, reversed, seeded shuffle, every permutation of <=5 chunk results (else 30 seeded shuffles), "
        "Pool.map/imap/imap_unordered with 2-4 workers}, whole table and per-chromosome row ranges, count column int32 (incl. signed and zero "
        "values) or float64 holding count*4^-k below 1, nnz marginal (_binarize) and plain marginal; pipe_reuse: every chunksize x keys given as "
        "chunksize=k / list / tuple / generator / iterator x maps, five runs off one split(); balance (also against the float64 copy of the matrix): coolers n<=8/nnz<=20 (quick), "
        "n<=10/nnz<=40 (thorough) x option vectors (mode, ignore_diags 0..2, min_nnz, min_count, mad_max, blacklist, tol, max_iters) x every "
        "chunksize with the builtin map and a spread of chunk sizes with every other functor; non-trivial = at least 2 chunks; distinct by canonical JSON; "
        "histories: 1-2 URIs (two files, one file, groups of one file) x 2-4 contents per URI derived from the previous one (new values, new positions, "
        "other nnz, new chromosome layout with the same number of bins, more / fewer bins, unrelated; int32 or float64 column) x replacement by unlink+create, "
        "truncating create or create(mode='a') of the group x runs before and after every replacement with mode genome-wide/cis/trans, chunk sizes "
        "1..nnz+1/None/huge, sequential, shuffled, per-run pool and one pool shared by the whole history, fresh or re-used Cooler object; "
        "non-trivial (histories) = some URI is run, replaced and run again")
EXHAUSTIVE = {"quick": True, "thorough": True}
TRUSTED = ["numpy arange/bincount/slicing, h5py slicing with clamping, functools.reduce, operator.add on arrays are primitives of the model",
           "multiprocess.Pool.map/imap preserve input order, imap_unordered returns every result exactly once (exercised, not proved)",
           "float64 addition/multiplication are exact on the integer counts and dyadic weights the pipeline check feeds (all partial sums < 2^53 ulps)",
           "scaling a matrix by a power of two commutes with every float operation of balancing (no under/overflow at 4^-3): the float64 copy "
           "with min_count and tol scaled alike must reproduce the integer file's masks and rescaled weights",
           "full balance_cooler runs are compared with each other (reference: chunksize=None, builtin map), the Lean contract checks the spans of every pass",
           "histories: the file system is what the harness wrote last at a URI (Lean `stored`); runs in histories are compared with the rational "
           "model `IC.balance` of C10 (discrete decisions closer than 1e-8 to a tie are not compared)"]
ASSUMPTIONS = ["chunksize >= 1 or None", "bin ids of stored pixels are below nbins (valid cooler, C02)", "counts non-negative in full-balance cases",
               "floating-point non-associativity is bounded (1e-9 relative), not modelled"]
CHUNK = 2
sys.set_int_max_str_digits(0)   # exact rationals of the balance model have thousands of digits

_B = None  # cooler._balance, set in worker_init


def worker_init():
    global cooler, _B, parallel, multiprocess
    import cooler  # noqa
    import multiprocess  # noqa
    from cooler import _balance as _B  # noqa
    from cooler import parallel  # noqa
    warnings.filterwarnings("ignore")
    np.seterr(all="ignore")


# ----------------------------------------------------------------------------------------------
# building coolers
# ----------------------------------------------------------------------------------------------

_COUNTER = itertools.count()


def _chrom_of_bins(chroms):
    return [c for c, nb in enumerate(chroms) for _ in range(nb)]


def _mk(case):
    chroms = case["chroms"]
    bins = []
    for c, nb in enumerate(chroms):
        bins += gen.chrom_bins(c, [10] * nb)
    df = gen.bins_df(bins, nchroms=len(chroms))
    px = case["pixels"]
    pdf = pd.DataFrame({"bin1_id": np.array([p[0] for p in px], dtype=np.int64),
                        "bin2_id": np.array([p[1] for p in px], dtype=np.int64),
                        "count": np.array([p[2] for p in px], dtype=np.int32)})
    path = os.path.join(gen.tmpdir(), f"c11-{os.getpid()}-{next(_COUNTER)}.cool")
    k = int(case.get("fshift", 0))
    if k:
        # float64 count column holding v * 4**-k (exact, dyadic; values below 1): the stored matrix is s*A, s = 4**-k
        pdf["count"] = np.array([p[2] for p in px], dtype=np.float64) / float(4 ** k)
        cooler.create_cooler(path, df, pdf, ordered=True, dtypes={"count": np.float64})
    else:
        cooler.create_cooler(path, df, pdf, ordered=True)
    return path, cooler.Cooler(path)


def _rm(path):
    try:
        os.unlink(path)
    except OSError:
        pass


# ----------------------------------------------------------------------------------------------
# map functors (schedules)
# ----------------------------------------------------------------------------------------------

ORDERED_KINDS = ("builtin", "lazy", "list", "pool.map", "pool.imap")


class RecMap:
    """delegating map that records the keys of every call (one call = one pass of the pipeline)"""

    def __init__(self, inner):
        self.inner = inner
        self.passes = []

    def __call__(self, func, keys):
        keys = list(keys)
        self.passes.append([[int(a), int(b)] for a, b in keys])
        return self.inner(func, keys)


def _lazy(func, keys):
    return (func(k) for k in keys)


def _eager(func, keys):
    return [func(k) for k in keys]


def _reversed(func, keys):
    return (func(k) for k in reversed(list(keys)))


class ShuffleMap:
    """evaluates the keys in a freshly shuffled order on every call and yields in that order"""

    def __init__(self, seed):
        self.rng = random.Random(seed)

    def __call__(self, func, keys):
        keys = list(keys)
        self.rng.shuffle(keys)
        return (func(k) for k in keys)


class PermMap:
    """evaluates once (key order), then hands the cached results back in the order `perm`"""

    def __init__(self):
        self.cache = None
        self.perm = None

    def __call__(self, func, keys):
        if self.cache is None:
            self.cache = [func(k) for k in keys]
        order = range(len(self.cache)) if self.perm is None else self.perm
        return iter([np.copy(self.cache[i]) for i in order])


class _MapCtx:
    """context manager yielding the map functor of a kind; pools are created here and closed after"""

    def __init__(self, kind, nproc=2, seed=0):
        self.kind, self.nproc, self.seed, self.pool = kind, nproc, seed, None

    def __enter__(self):
        k = self.kind
        if k == "builtin":
            return map
        if k == "lazy":
            return _lazy
        if k == "list":
            return _eager
        if k == "reversed":
            return _reversed
        if k == "shuffle":
            return ShuffleMap(self.seed)
        if k.startswith("pool."):
            ctx = multiprocess.get_context("fork")
            self.pool = ctx.Pool(self.nproc)
            return getattr(self.pool, k[5:])
        raise ValueError(k)

    def __exit__(self, et, ev, tb):
        if self.pool is not None:
            if et is None:
                self.pool.close()
            else:
                self.pool.terminate()
            self.pool.join()
        return False


# ----------------------------------------------------------------------------------------------
# visit log: which pixel rows does `chunkgetter` read (works across forked pool workers)
# ----------------------------------------------------------------------------------------------

_VISIT_LOG = None
_ORIG_GET = None


def _logging_get(grp, lo=0, hi=None, *a, **k):
    out = _ORIG_GET(grp, lo, hi, *a, **k)
    if _VISIT_LOG is not None and grp.name.rstrip("/").endswith("pixels"):
        n = len(next(iter(out.values()))) if isinstance(out, dict) else len(out)
        with open(_VISIT_LOG, "a") as f:
            f.write(f"{int(lo)} {int(hi) if hi is not None else -1} {int(n)}\n")
    return out


class _VisitLog:
    """wraps the `get` that `cooler.parallel.chunkgetter` calls; restores it afterwards"""

    def __enter__(self):
        global _VISIT_LOG, _ORIG_GET
        _ORIG_GET = parallel.get
        _VISIT_LOG = os.path.join(gen.tmpdir(), f"visits-{os.getpid()}-{next(_COUNTER)}.log")
        open(_VISIT_LOG, "w").close()
        parallel.get = _logging_get
        return self

    def take(self):
        """rows logged so far; the log is emptied (several runs under one wrapper, incl. forked pool workers)"""
        rows = self.read()
        open(_VISIT_LOG, "w").close()
        return rows

    def read(self):
        rows = []
        with open(_VISIT_LOG) as f:
            for line in f:
                lo, hi, n = (int(x) for x in line.split())
                rows.append([lo, hi, n])
        return rows

    def __exit__(self, *exc):
        global _VISIT_LOG, _ORIG_GET
        parallel.get = _ORIG_GET
        _rm(_VISIT_LOG)
        _VISIT_LOG = None
        _ORIG_GET = None
        return False


# ----------------------------------------------------------------------------------------------
# (a) units
# ----------------------------------------------------------------------------------------------

def _partition_unit(case):
    lo, hi, step = case["lo"], case["hi"], case["step"]
    impl = [[int(a), int(b)] for a, b in cooler.util.partition(lo, hi, step)]
    m = drv().ask("C11.partition", lo=lo, hi=hi, step=step)
    if not m["covers"]:
        raise AssertionError("theorem partition_coversOnce contradicted by the model")
    c = drv().ask("C11.covers", n=hi + step + 1, spans=impl, lo=lo, hi=hi)
    if not c["covers"] or impl != m["model"]:
        return {"mismatch": True, "impl": impl, "model": m["model"], "contract_holds": c["covers"], "visits": c["visits"]}
    return None


def _recorded_passes(clr, chunksize, cis):
    rec = RecMap(map)
    cooler.balance_cooler(clr, chunksize=chunksize, map=rec, cis_only=cis, ignore_diags=False, mad_max=0,
                          min_nnz=0, min_count=0, max_iters=1, store=False)
    return rec.passes


def _pass_ok(keys, n, lo, hi):
    return drv().ask("C11.covers", n=n, spans=keys, lo=lo, hi=hi)


def _spans_unit(case):
    """spans of every pass of a real (1-iteration) balance run, genome-wide and cis-only, and split()'s defaults"""
    path, clr = _mk(case)
    try:
        nnz, cs = len(case["pixels"]), case["chunksize"]
        chrom = _chrom_of_bins(case["chroms"])
        try:
            gw = _recorded_passes(clr, cs, False)
            cis = _recorded_passes(clr, cs, True)
            default_keys = None
            if cs is not None:
                default_keys = [[int(a), int(b)] for a, b in parallel.split(clr, chunksize=cs).keys]
        except Exception as e:  # noqa  the model builds spans for every chunksize >= 1 and None (theorem code_chunkings_cover)
            return {"mismatch": True, "impl_raised": errclass(e), "message": str(e)[:200],
                    "model": drv().ask("C11.spans", nnz=nnz, chunksize=cs)["spans"]}
    finally:
        _rm(path)
    m = drv().ask("C11.spans", nnz=nnz, chunksize=cs)
    if not m["covers"]:
        raise AssertionError("theorem spans_coversOnce contradicted by the model")
    cm = drv().ask("C11.cis", chrom=chrom, pixels=case["pixels"], nchroms=len(case["chroms"]), chunksize=cs)
    bad = []
    stats = {"passes": 0, "spans_equal_model": 0, "spans_differ_from_model_but_cover": 0}
    if len(gw) != 2 or len(cis) != 1 + len(case["chroms"]):
        bad.append({"note": "unexpected number of passes", "genomewide": len(gw), "cis": len(cis)})
    for p in gw:
        r = _pass_ok(p, nnz, 0, nnz)
        stats["passes"] += 1
        if not r["covers"]:
            bad.append({"pass": "genome-wide", "spans": p, "visits": r["visits"]})
        elif p == m["spans"]["ok"]:
            stats["spans_equal_model"] += 1
        else:
            stats["spans_differ_from_model_but_cover"] += 1
    for k, p in enumerate(cis):
        lo, hi = (0, nnz) if k == 0 else cm[k - 1]["range"]
        r = _pass_ok(p, nnz, lo, hi)
        stats["passes"] += 1
        if not r["covers"]:
            bad.append({"pass": "cis marg" if k == 0 else f"cis chromosome {k - 1}", "rows": [lo, hi], "spans": p, "visits": r["visits"]})
        elif k > 0:
            mc = cm[k - 1]["spans"]
            stats["spans_equal_model" if mc.get("ok") == p else "spans_differ_from_model_but_cover"] += 1
    if default_keys is not None:
        r = _pass_ok(default_keys, nnz, 0, nnz)
        if not r["covers"]:
            bad.append({"pass": "split(clr, chunksize=c) default keys", "spans": default_keys, "visits": r["visits"]})
    if bad:
        return {"mismatch": True, "violations": bad, "model_spans": m["spans"]}
    return {"stats": stats}


# ----------------------------------------------------------------------------------------------
# (b) the split-apply-combine pipeline, bit for bit
# ----------------------------------------------------------------------------------------------

def _impl_filters(filters):
    from functools import partial
    out = []
    for f in filters:
        n = f["f"]
        if n == "binarize":
            out.append(_B._binarize)
        elif n == "zero_diags":
            out.append(partial(_B._zero_diags, f["n"]))
        elif n == "zero_trans":
            out.append(_B._zero_trans)
        elif n == "zero_cis":
            out.append(_B._zero_cis)
        else:
            raise ValueError(n)
    return out


def _exact(arr, ints, shift):
    """float array == ints / 4**shift, exactly"""
    if len(arr) != len(ints):
        return False
    den = 4 ** shift
    for x, k in zip(arr, ints):
        x = float(x)
        if x != x or x in (float("inf"), float("-inf")) or Fraction(x) != Fraction(k, den):
            return False
    return True


def _perms_for(k, seed):
    if k <= 5:
        return [list(p) for p in itertools.permutations(range(k))]
    r = random.Random(seed)
    perms = [list(range(k)), list(reversed(range(k)))]
    for _ in range(30):
        p = list(range(k))
        r.shuffle(p)
        perms.append(p)
    return perms


def _reduce_under(case, clr, keys, n_bins):
    """the reduction of one balancing pass, written as _balance.py writes it, under the case's map functor(s):
    [(schedule label, reduced array)]"""
    from operator import add
    kind = case["map"]
    w, shift = case.get("w"), case.get("shift", 0)
    filters = _impl_filters(case["filters"])
    vec = None if w is None else np.array(w, dtype=float) * 2.0 ** (-shift)

    def build(m):
        dp = parallel.split(clr, spans=keys, map=m, use_lock=False).prepare(_B._init).pipe(filters)
        if vec is not None:
            dp = dp.pipe(_B._timesouterproduct, vec)
        return dp.pipe(_B._marginalize)

    if kind == "perm_all":
        pm = PermMap()
        dp = build(pm)
        out = []
        for p in _perms_for(len(keys), case.get("seed", 0)):
            pm.perm = p
            out.append((p, dp.reduce(add, np.zeros(n_bins))))
        return out
    with _MapCtx(kind, case.get("nproc", 2), case.get("seed", 0)) as m:
        return [(kind, build(m).reduce(add, np.zeros(n_bins)))]


def _pipeline(case):
    px = case["pixels"]
    nnz = len(px)
    chrom = _chrom_of_bins(case["chroms"])
    n_bins = len(chrom)
    cs = case["chunksize"]
    w, shift = case.get("w"), case.get("shift", 0)
    cis_chrom = case.get("cis_chrom")
    path, clr = _mk(case)
    try:
        try:
            passes = _recorded_passes(clr, cs, cis_chrom is not None)
        except Exception as e:  # noqa  the model builds spans for every chunksize >= 1 and None
            return {"mismatch": True, "impl_raised": errclass(e), "message": str(e)[:200], "where": "balance_cooler building its spans"}
        if cis_chrom is None:
            spans, lo, hi = passes[0], 0, nnz
        else:
            cm = drv().ask("C11.cis", chrom=chrom, pixels=px, nchroms=len(case["chroms"]), chunksize=cs)
            lo, hi = cm[cis_chrom]["range"]
            if len(passes) == 1 + len(case["chroms"]):
                spans = passes[1 + cis_chrom]
            else:  # pass structure changed: take the first later pass that is cut for these rows
                cand = [p for p in passes[1:] if _pass_ok(p, nnz, lo, hi)["covers"]]
                if not cand:
                    return {"mismatch": True, "what": "no cis-only pass covers the rows of the chromosome exactly once",
                            "rows": [lo, hi], "passes": passes}
                spans = cand[0]
        keys = [(np.int64(a), np.int64(b)) for a, b in spans]  # numpy integers, as _balance.py hands them on
        with _VisitLog() as vl:
            try:
                results = _reduce_under(case, clr, keys, n_bins)
            except Exception as e:  # noqa  the modelled pipeline is total
                return {"mismatch": True, "impl_raised": errclass(e), "message": str(e)[:200], "where": "split/prepare/pipe/reduce",
                        "spans": spans}
            visits = vl.read()
    finally:
        _rm(path)
    mfilters = list(case["filters"]) + ([] if w is None else [{"f": "times", "vec": w}])
    nsp = len(spans)
    model = drv().ask("C11.marginal", n=n_bins, chrom=chrom, pixels=px, filters=mfilters, spans=spans,
                      perm=list(reversed(range(nsp))), lo=lo, hi=hi)
    if model["covers"] and model["reduced"] != model["whole"]:
        raise AssertionError("L1 != L0: theorem balanceReduce_eq_whole contradicted")
    # data scale: weights contribute 4**-shift; a float column contributes 4**-fshift unless _binarize replaced the
    # values by 0/1 (a stored value is non-zero iff its integer is)
    eff_shift = (0 if w is None else shift) + (0 if any(f["f"] == "binarize" for f in case["filters"]) else int(case.get("fshift", 0)))
    out = {}
    for label, arr in results:
        if not _exact(np.asarray(arr, dtype=float), model["whole"], eff_shift):
            out = {"mismatch": True, "schedule": label, "impl": [float(x) for x in np.asarray(arr, dtype=float)],
                   "expected_times_4^shift": model["whole"], "shift": eff_shift,
                   "model_under_these_spans": model["reduced"], "spans": spans, "spans_cover_once": model["covers"]}
            break
    # visit log: rows actually read, as intervals [lo, lo + rows returned)
    read = [[a, a + n] for a, _b, n in visits]
    vc = drv().ask("C11.covers", n=nnz, spans=read, lo=lo, hi=hi)
    if not vc["covers"]:
        out.update({"mismatch": True, "visit_log(lo,hi,rows)": visits, "visits_per_row": vc["visits"], "rows": [lo, hi],
                    "note": "each stored pixel row of the range must be read exactly once"})
    if out:
        return out
    return {"stats": {"schedules": len(results), "chunks": nsp, "reads": len(visits)}}


KEY_FORMS = ("default", "list", "tuple", "generator", "iterator")


def _int_vec(arr, shift):
    """float array * 4**shift as exact integers, or None if some entry is not such a multiple"""
    den = 4 ** shift
    out = []
    for x in np.asarray(arr, dtype=float):
        x = float(x)
        if x != x or x in (float("inf"), float("-inf")):
            return None
        f = Fraction(x) * den
        if f.denominator != 1:
            return None
        out.append(int(f))
    return out


def _pipe_reuse(case):
    """ONE split() — keys spelled as the default chunking (`chunksize=k`: the generator of util.partition), a list, a tuple,
    a generator or an iterator of the spans balance_cooler builds — then used the way the pipeline API allows: reduce, a
    second branch off the same base (the nnz marginal), the first pipe again, gather, iteration.  Every run must hand its
    map spans that cover the table once (Lean `CoversOnce`), read every stored pixel exactly once (visit log) and return
    the whole marginal (Lean `wholeMarginal`) / the per-chunk arrays (Lean `run`), bit for bit."""
    from operator import add
    px = case["pixels"]
    nnz = len(px)
    chrom = _chrom_of_bins(case["chroms"])
    n_bins = len(chrom)
    cs, kind, form = case["chunksize"], case["map"], case["keys"]
    fk = int(case.get("fshift", 0))
    fA = list(case["filters"])
    fB = [{"f": "binarize"}] + fA
    path, clr = _mk(case)
    log = []
    try:
        keys = None
        if form != "default":
            try:
                spans = _recorded_passes(clr, cs, False)[0]
            except Exception as e:  # noqa
                return {"mismatch": True, "impl_raised": errclass(e), "message": str(e)[:200], "where": "balance_cooler building its spans"}
            keys = [(np.int64(a), np.int64(b)) for a, b in spans]
        with _VisitLog() as vl:
            with _MapCtx(kind, case.get("nproc", 2), case.get("seed", 0)) as m:
                rec = RecMap(m)
                try:
                    if form == "default":
                        base = parallel.split(clr, map=rec, chunksize=cs, use_lock=False)
                    else:
                        given = {"list": lambda: list(keys), "tuple": lambda: tuple(keys),
                                 "generator": lambda: (k for k in keys), "iterator": lambda: iter(keys)}[form]()
                        base = parallel.split(clr, map=rec, spans=given, use_lock=False)
                    base = base.prepare(_B._init)
                    A = base.pipe(_impl_filters(fA)).pipe(_B._marginalize)
                    B = base.pipe(_impl_filters(fB)).pipe(_B._marginalize)
                    for label, dp, fs, how in (("first pipe, reduce", A, fA, "reduce"), ("second branch of the same split(), reduce", B, fB, "reduce"),
                                               ("first pipe again, reduce", A, fA, "reduce"), ("second branch, gather", B, fB, "gather"),
                                               ("first pipe, iteration", A, fA, "iter")):
                        n0 = len(rec.passes)
                        if how == "reduce":
                            res = dp.reduce(add, np.zeros(n_bins))
                        elif how == "gather":
                            res = list(dp.gather())
                        else:
                            res = list(iter(dp))
                        log.append((label, fs, how, res, rec.passes[n0:], vl.take()))
                except Exception as e:  # noqa  the modelled pipeline is total and re-runnable
                    return {"mismatch": True, "impl_raised": errclass(e), "message": str(e)[:200], "where": "split/prepare/pipe/run",
                            "completed_runs": [x[0] for x in log]}
    finally:
        _rm(path)
    for label, fs, how, res, calls, visits in log:
        eff = 0 if any(f["f"] == "binarize" for f in fs) else fk
        seen = [k for c in calls for k in c]
        model = drv().ask("C11.marginal", n=n_bins, chrom=chrom, pixels=px, filters=fs, spans=seen,
                          perm=list(range(len(seen))), lo=0, hi=nnz)
        if model["covers"] and model["reduced"] != model["whole"]:
            raise AssertionError("L1 != L0: theorem balanceReduce_eq_whole contradicted")
        bad = {}
        if len(calls) != 1 or not model["covers"]:
            bad["keys_handed_to_map"] = calls
            bad["note_keys"] = "the run must map once over spans that cover the table exactly once"
        if how == "reduce":
            if not _exact(np.asarray(res, dtype=float), model["whole"], eff):
                bad.update({"impl": [float(x) for x in np.asarray(res, dtype=float)], "expected_times_4^shift": model["whole"], "shift": eff})
        else:
            got = [_int_vec(r, eff) for r in res]
            if any(g is None for g in got) or sorted(got) != sorted(model["chunks"]) or (model["covers"] and len(got) != len(seen)):
                bad.update({"impl_chunks": [[float(x) for x in np.asarray(r, dtype=float)] for r in res], "model_chunks_times_4^shift": model["chunks"],
                            "shift": eff})
        vc = drv().ask("C11.covers", n=nnz, spans=[[a, a + n] for a, _b, n in visits], lo=0, hi=nnz)
        if not vc["covers"]:
            bad.update({"visit_log(lo,hi,rows)": visits, "visits_per_row": vc["visits"],
                        "note_visits": "each stored pixel row must be read exactly once in every run"})
        if bad:
            return dict({"mismatch": True, "run": label, "keys_given_as": form}, **bad)
    return {"stats": {"runs": len(log)}}


# ----------------------------------------------------------------------------------------------
# (c) full balance_cooler across schedules
# ----------------------------------------------------------------------------------------------

def _run_balance(clr, opts, chunksize, m):
    o = dict(opts)
    bl = o.pop("blacklist", None)
    if bl is not None:
        bl = np.array(bl, dtype=int)
    try:
        bias, st = cooler.balance_cooler(clr, chunksize=chunksize, map=m, blacklist=bl, store=False, **o)
    except Exception as e:  # noqa
        return ("err", errclass(e))
    return ("ok", np.array(bias, dtype=float),
            np.atleast_1d(np.array(st["converged"])).astype(bool),
            np.atleast_1d(np.array(st["scale"], dtype=float)),
            np.atleast_1d(np.array(st["var"], dtype=float)))


def _close(a, b, rtol=1e-9):
    """same NaN/inf pattern and finite entries equal to relative rtol"""
    if a.shape != b.shape:
        return False
    if not np.array_equal(np.isnan(a), np.isnan(b)):
        return False
    fa, fb = a[~np.isnan(a)], b[~np.isnan(b)]
    inf = np.isinf(fa)
    if not np.array_equal(inf, np.isinf(fb)) or not np.array_equal(fa[inf], fb[inf]):
        return False
    fa, fb = fa[~inf], fb[~inf]
    return bool(np.all(np.abs(fa - fb) <= rtol * np.maximum(np.abs(fa), np.abs(fb))))


def _var_close(va, vb, sa, sb):
    """var is a variance of marginals of magnitude `scale`: a relative perturbation eps of the marginals moves it by
    about 2*sqrt(var)*eps*scale, which is not small relative to a var near 0"""
    if va.shape != vb.shape or not np.array_equal(np.isnan(va), np.isnan(vb)):
        return False
    for x, y, s, t in zip(va, vb, sa, sb):
        if np.isnan(x):
            continue
        if np.isinf(x) or np.isinf(y):
            if x != y:
                return False
            continue
        sc = max(abs(s), abs(t)) if np.isfinite(s) and np.isfinite(t) else 0.0
        tol = 1e-9 * max(abs(x), abs(y)) + 1e-12 * np.sqrt(max(x, y, 0.0)) * sc + 1e-24 * sc * sc
        if abs(x - y) > tol:
            return False
    return True


def _diff(ref, got, exact=False):
    if ref[0] != got[0]:
        return "one run raised, the other did not"
    if ref[0] == "err":
        return None if ref[1] == got[1] else "different error classes"
    _, b0, c0, s0, v0 = ref
    _, b1, c1, s1, v1 = got
    if exact:
        for x, y, nm in ((b0, b1, "weights"), (s0, s1, "scale"), (v0, v1, "var")):
            if not np.array_equal(x, y, equal_nan=True):
                return f"repeated run differs in {nm} (same ordered schedule must reproduce bit for bit)"
        return None if np.array_equal(c0, c1) else "repeated run differs in converged"
    if not np.array_equal(np.isnan(b0), np.isnan(b1)):
        return "NaN masks differ"
    if not np.array_equal(c0, c1):
        return "converged flags differ"
    if not _close(b0, b1):
        return "weights differ by more than 1e-9 relative"
    if not _close(s0, s1):
        return "scale differs by more than 1e-9 relative"
    if not _var_close(v0, v1, s0, s1):
        return "var differs"
    return None


def _ser(r):
    if r[0] == "err":
        return {"err": r[1]}
    return {"weights": [None if np.isnan(x) else float(x) for x in r[1]], "converged": [bool(x) for x in r[2]],
            "scale": [None if np.isnan(x) else float(x) for x in r[3]], "var": [None if np.isnan(x) else float(x) for x in r[4]]}


def _unscale(r, fk, rescaled):
    """outputs for the matrix s*A (s = 4**-fk) expressed for A: rescaled weights w/sqrt(s) -> w, scale s*m -> m, var s^2*v -> v"""
    if r[0] != "ok":
        return r
    return ("ok", r[1] / float(2 ** fk) if rescaled else r[1], r[2], r[3] * float(4 ** fk), r[4] * float(16 ** fk))


def _balance_schedules(case):
    px = case["pixels"]
    nnz = len(px)
    chrom = _chrom_of_bins(case["chroms"])
    opts, cs, kind = case["opts"], case["chunksize"], case["map"]
    fk = int(case.get("fshift", 0))
    path, clr = _mk(dict(case, fshift=0))
    path2 = None
    try:
        ref = _run_balance(clr, opts, None, map)
        clr2, opts2 = clr, opts
        if fk:
            # the same matrix stored as float64 s*A, s = 4**-fk (every value below 1): power-of-two scaling commutes with
            # every float operation of the procedure, so with the two absolute thresholds scaled alike (min_count by s,
            # tol by s*s: var is quadratic) every decision is the same and the outputs are the reference's, rescaled
            path2, clr2 = _mk(case)
            sc = float(4 ** fk)
            opts2 = dict(opts, min_count=opts["min_count"] / sc, tol=opts["tol"] / (sc * sc))
        with _MapCtx(kind, case.get("nproc", 2), case.get("seed", 0)) as m:
            rec = RecMap(m)
            got = _run_balance(clr2, opts2, cs, rec)
            got2 = _run_balance(clr2, opts2, cs, m)
    finally:
        _rm(path)
        if path2:
            _rm(path2)
    if fk:
        got, got2 = _unscale(got, fk, opts.get("rescale_marginals", True)), _unscale(got2, fk, opts.get("rescale_marginals", True))
    d = _diff(ref, got)
    if d is None:
        d2 = _diff(got, got2, exact=kind in ORDERED_KINDS)
        if d2 is not None:
            return {"mismatch": True, "what": "repeated run: " + d2, "run1": _ser(got), "run2": _ser(got2)}
    else:
        return {"mismatch": True, "what": d, "reference(chunksize=None, map)": _ser(ref), "observed": _ser(got)}
    # every pass must have been cut into spans that cover the whole table, or one chromosome's rows, exactly once
    distinct = []
    for p in rec.passes:
        if p not in distinct:
            distinct.append(p)
    ranges = [[0, nnz]]
    if opts.get("cis_only"):
        cm = drv().ask("C11.cis", chrom=chrom, pixels=px, nchroms=len(case["chroms"]), chunksize=cs)
        ranges += [c["range"] for c in cm]
    for p in distinct:
        if not any(_pass_ok(p, nnz, lo, hi)["covers"] for lo, hi in ranges):
            return {"mismatch": True, "what": "a pass was cut into spans that do not cover the table (or a chromosome's rows) exactly once",
                    "spans": p, "admissible_row_ranges": ranges}
    conv = got[0] == "ok" and bool(np.all(got[2]))
    return {"stats": {"passes": len(rec.passes), "converged_runs": int(conv), "error_runs": int(got[0] == "err"),
                      "all_nan_runs": int(got[0] == "ok" and bool(np.all(np.isnan(got[1]))))}}


# ----------------------------------------------------------------------------------------------
# (d) CLI
# ----------------------------------------------------------------------------------------------

def _cli(case):
    import h5py
    from click.testing import CliRunner
    from cooler.cli import cli
    opts = case["opts"]
    path, clr = _mk(case)
    try:
        ref = _run_balance(clr, opts, None, map)
        args = ["balance", "-p", str(case.get("nproc", 2)), "--force", "--chunksize", str(case["chunksize"]),
                "--max-iters", str(opts["max_iters"]), "--min-nnz", str(opts["min_nnz"]), "--min-count", str(opts["min_count"]),
                "--mad-max", str(opts["mad_max"]), "--ignore-diags", str(int(opts["ignore_diags"])), "--tol", repr(opts["tol"])]
        if opts.get("cis_only"):
            args.append("--cis-only")
        if opts.get("trans_only"):
            args.append("--trans-only")
        r = CliRunner().invoke(cli, args + [path])
        if r.exit_code != 0:
            if ref[0] == "err":
                return {"stats": {"cli_error_matches_api_error": 1}}
            return {"mismatch": True, "what": f"cooler balance exited {r.exit_code}", "output": (r.output or "")[-400:],
                    "exception": repr(r.exception)}
        with h5py.File(path, "r") as h5:
            ds = h5["bins/weight"]
            got = ("ok", np.array(ds[:], dtype=float), np.atleast_1d(np.array(ds.attrs["converged"])).astype(bool),
                   np.atleast_1d(np.array(ds.attrs["scale"], dtype=float)), np.atleast_1d(np.array(ds.attrs["var"], dtype=float)))
    finally:
        _rm(path)
    d = _diff(ref, got)
    if d is not None:
        return {"mismatch": True, "what": d, "api_reference": _ser(ref), "cli": _ser(got), "args": args}
    return None


# ----------------------------------------------------------------------------------------------
# (e) histories: one process; coolers written, run, REPLACED at the same URI and run again
# ----------------------------------------------------------------------------------------------
# A history case:
#   uris  : [[file number, group or None], ...]     (None: the cooler is the root of the file)
#   data  : [{"chroms": [...], "pixels": [[i, j, v], ...], "fshift": k}, ...]
#   steps : {"write": u, "data": k, "how": "unlink" | "truncate" | "group"}   create_cooler at URI u (replacing what is there)
#           {"run": u, "clr": "fresh" | "same", ...}                           a run on the cooler stored at URI u
#   pool  : worker count of ONE process pool living for the whole history (maps "shared.*"), 0 = none
# Which content a run reads is decided by Lean (`observe`, op C11.history); the expected value is the Lean model on it.

def _q(x):
    a, b = float(x).as_integer_ratio()
    return [a, b]


def _fl(r):
    if r is None:
        return None
    try:
        return r[0] / r[1]
    except OverflowError:
        return float("inf") if r[0] > 0 else float("-inf")


def _frames(d):
    chroms = d["chroms"]
    bins = []
    for c, nb in enumerate(chroms):
        bins += gen.chrom_bins(c, [10] * nb)
    df = gen.bins_df(bins, nchroms=len(chroms))
    px = d["pixels"]
    pdf = pd.DataFrame({"bin1_id": np.array([p[0] for p in px], dtype=np.int64),
                        "bin2_id": np.array([p[1] for p in px], dtype=np.int64),
                        "count": np.array([p[2] for p in px], dtype=np.int32)})
    k = int(d.get("fshift", 0))
    kw = {}
    if k:
        pdf["count"] = np.array([p[2] for p in px], dtype=np.float64) / float(4 ** k)
        kw["dtypes"] = {"count": np.float64}
    return df, pdf, kw


class _Files:
    """the scratch files of one history: fixed paths for the whole case"""

    def __init__(self, case):
        tag = f"c11h-{os.getpid()}-{next(_COUNTER)}"
        self.uris = case["uris"]
        self.paths = {f: os.path.join(gen.tmpdir(), f"{tag}-f{f}.cool") for f, _g in self.uris}

    def uri(self, u):
        f, g = self.uris[u]
        return self.paths[f] if g is None else self.paths[f] + "::" + g

    def write(self, u, d, how):
        f, g = self.uris[u]
        df, pdf, kw = _frames(d)
        if g is None:
            if how == "unlink":
                _rm(self.paths[f])
                cooler.create_cooler(self.paths[f], df, pdf, ordered=True, **kw)
            else:   # create_cooler truncates an existing file (mode="w")
                cooler.create_cooler(self.paths[f], df, pdf, ordered=True, mode="w", **kw)
        else:       # the group is deleted and written again, other groups of the file stay
            cooler.create_cooler(self.paths[f] + "::" + g, df, pdf, ordered=True, mode="a", **kw)

    def cleanup(self):
        for p in self.paths.values():
            _rm(p)


class _Hist:
    """walks the steps of a history: writes, and for every run step hands (step, content read per Lean, Cooler object, map)"""

    def __init__(self, case):
        self.case = case
        self.files = _Files(case)
        self.kept = {}      # uri -> (Cooler, (chroms, nnz) of the content it was opened on)
        self.pool = None
        lean_steps = [({"write": s["write"], "data": s["data"]} if "write" in s else {"run": s["run"]}) for s in case["steps"]]
        self.reads = drv().ask("C11.history", steps=lean_steps)["reads"]
        if len(self.reads) != sum(1 for s in case["steps"] if "run" in s):
            raise AssertionError("theorem observe_length contradicted by the model")

    def __enter__(self):
        if self.case.get("pool"):
            self.pool = multiprocess.get_context("fork").Pool(int(self.case["pool"]))
        return self

    def __exit__(self, et, ev, tb):
        if self.pool is not None:
            if et is None:
                self.pool.close()
            else:
                self.pool.terminate()
            self.pool.join()
        self.files.cleanup()
        return False

    def mapctx(self, st):
        kind = st["map"]
        if kind.startswith("shared."):
            import contextlib
            return contextlib.nullcontext(getattr(self.pool, kind[7:]))
        return _MapCtx(kind, st.get("nproc", 2), st.get("seed", 0))

    def clr_for(self, st, d):
        """a fresh Cooler object, or the one kept from an earlier run on this URI when everything it read at construction
        (chromosome table, number of bins, nnz) still describes the stored content"""
        u = st["run"]
        meta = (tuple(d["chroms"]), len(d["pixels"]))
        if st.get("clr") == "same" and u in self.kept and self.kept[u][1] == meta:
            return self.kept[u][0], True
        clr = impl(cooler.Cooler, self.files.uri(u))
        self.kept[u] = (clr, meta)
        return clr, False

    def walk(self):
        ri = 0
        for si, st in enumerate(self.case["steps"]):
            if "write" in st:
                impl(self.files.write, st["write"], self.case["data"][st["data"]], st.get("how", "unlink"))
                continue
            k = self.reads[ri]
            ri += 1
            if k is None:
                raise AssertionError("generator produced a run on a URI that holds nothing")
            yield si, st, k, self.case["data"][k]


def _offsets_of(chroms):
    offs = [0]
    for nb in chroms:
        offs.append(offs[-1] + nb)
    return offs


def _model_balance(d, opts):
    mode = "cis" if opts.get("cis_only") else "trans" if opts.get("trans_only") else "genome"
    return drv().ask("C10.balance", n=sum(d["chroms"]), offsets=_offsets_of(d["chroms"]), pixels=d["pixels"], mode=mode,
                     ignore_diags=int(opts["ignore_diags"]), min_nnz=int(opts["min_nnz"]), min_count=int(opts["min_count"]),
                     mad_max=int(opts["mad_max"]), blacklist=list(opts.get("blacklist") or []), x0=None, tol=_q(opts["tol"]),
                     max_iters=int(opts["max_iters"]))


TIE = 1e-8


def _close1(a, b, rel=1e-9):
    if a is None or b is None:
        return a is None and b is None
    return abs(a - b) <= rel * max(abs(a), abs(b))


def _vs_model(m, got, d, opts):
    """None, or the list of components in which a balance_cooler result differs from the Lean model run"""
    if got[0] != "ok":
        return ["raised " + str(got[1])]
    _, bias, conv, scale, var = got
    n = sum(d["chroms"])
    mb = [_fl(x) for x in m["bias"]]
    msc = [_fl(x) for x in m["scales"]]
    mva = [_fl(x) for x in m["vars"]]
    doms = list(zip(_offsets_of(d["chroms"])[:-1], _offsets_of(d["chroms"])[1:])) if opts.get("cis_only") else [(0, n)]
    if len(bias) != n:
        return [f"{len(bias)} weights for {n} bins"]
    if not (len(conv) == len(scale) == len(var) == len(doms)):
        return ["stats arrays do not have one entry per domain"]
    problems = []
    if [bool(np.isnan(x)) for x in bias] != [x is None for x in mb]:
        problems.append("nan-pattern")
    if [bool(x) for x in conv] != m["converged"]:
        problems.append("converged")
    for k in range(len(doms)):
        s = None if np.isnan(scale[k]) else float(scale[k])
        if not _close1(s, msc[k]):
            problems.append(f"scale[{k}]")
        tolv = 1e-9 * abs(mva[k]) + 1e-10 * abs(msc[k] or 0.0) * np.sqrt(abs(mva[k])) + 1e-22 * (msc[k] or 0.0) ** 2
        if not (abs(float(var[k]) - mva[k]) <= tolv):
            problems.append(f"var[{k}]")
    if not problems:
        for k, (lo, hi) in enumerate(doms):
            div = np.sqrt(msc[k]) if (opts.get("rescale_marginals", True) and msc[k] is not None) else 1.0
            for i in range(lo, hi):
                if mb[i] is not None and not _close1(float(bias[i]), mb[i] / div):
                    problems.append(f"weight[{i}]")
    return problems or None


def _hist_balance(case):
    models = {}
    stats = {"runs": 0, "compared": 0, "ties_skipped": 0, "same_object_runs": 0, "runs_after_replacement": 0}
    with _Hist(case) as h:
        ran, replaced = set(), set()
        for si, st, k, d in _walk_marking(h, ran, replaced):
            opts = st["opts"]
            key = (k, json_key(opts))
            if key not in models:
                models[key] = _model_balance(d, opts)
            m = models[key]
            if "err" in m:
                raise AssertionError("generator produced a run outside the balance model's domain")
            fk = int(d.get("fshift", 0))
            opts2 = opts
            if fk:
                sc = float(4 ** fk)
                opts2 = dict(opts, min_count=opts["min_count"] / sc, tol=opts["tol"] / (sc * sc))
            clr, same = h.clr_for(st, d)
            with h.mapctx(st) as mp_:
                got = _run_balance(clr, opts2, st["chunksize"], mp_)
            if fk:
                got = _unscale(got, fk, opts.get("rescale_marginals", True))
            stats["runs"] += 1
            stats["same_object_runs"] += int(same)
            stats["runs_after_replacement"] += int(st["run"] in replaced)
            gap = _fl(m["min_gap"])
            if gap is not None and gap < TIE and got[0] == "ok":
                stats["ties_skipped"] += 1
                continue
            bad = _vs_model(m, got, d, opts)
            if bad:
                return {"mismatch": True, "step": si, "run": st, "content_stored_at_that_moment": d, "problems": bad[:6],
                        "same_cooler_object": same, "impl": _ser(got),
                        "model": {"bias": [_fl(x) for x in m["bias"]], "scales": [_fl(x) for x in m["scales"]],
                                  "vars": [_fl(x) for x in m["vars"]], "converged": m["converged"]}}
            stats["compared"] += 1
    return {"stats": stats}


def json_key(x):
    return json.dumps(x, sort_keys=True)


def _walk_marking(h, ran, replaced):
    """h.walk(), keeping track of the URIs that were run and later written again (`replaced`)"""
    steps = h.case["steps"]
    pos = 0
    for si, st, k, d in h.walk():
        for s in steps[pos:si]:
            if "write" in s and s["write"] in ran:
                replaced.add(s["write"])
        pos = si
        yield si, st, k, d
        ran.add(st["run"])


def _chrom_classes(labels):
    """which bins share a chromosome, independent of how a chromosome is labelled: index of the first bin with the label"""
    first = {}
    out = []
    for i, x in enumerate(labels):
        out.append(first.setdefault(x, i))
    return out


def _canon_chunk(chunk, fk):
    """a raw chunk of the pipeline as (chromosome classes of the whole bin table, pixel rows with exact integer values)"""
    ch = chunk["bins"]["chrom"]
    labels = [str(x) for x in (ch.tolist() if hasattr(ch, "tolist") else list(ch))]
    pxs = chunk["pixels"]
    vals = _int_vec(np.asarray(pxs["count"], dtype=float), fk)
    if vals is None:
        vals = [None] * len(pxs["count"])
    rows = [[int(a), int(b), v] for a, b, v in zip(pxs["bin1_id"], pxs["bin2_id"], vals)]
    return [_chrom_classes(labels), rows]


def _hist_pipeline(case):
    from operator import add
    stats = {"runs": 0, "same_object_runs": 0, "runs_after_replacement": 0, "reductions": 0, "raw_chunk_runs": 0}
    with _Hist(case) as h:
        ran, replaced = set(), set()
        for si, st, k, d in _walk_marking(h, ran, replaced):
            px = d["pixels"]
            nnz = len(px)
            chrom = _chrom_of_bins(d["chroms"])
            fk = int(d.get("fshift", 0))
            cs = st["chunksize"]
            clr, same = h.clr_for(st, d)
            with h.mapctx(st) as mp_:
                rec = RecMap(mp_)

                def build(**kw):
                    # keys as balance_cooler / split() derive them from what the file says now
                    if cs is None:
                        return parallel.split(clr, map=rec, spans=[(0, int(clr.info["nnz"]))], use_lock=False, **kw)
                    return parallel.split(clr, map=rec, chunksize=cs, use_lock=False, **kw)

                if st["what"] == "reduce":
                    w, shift = st.get("w"), st.get("shift", 0)
                    vec = None if w is None else np.array(w, dtype=float) * 2.0 ** (-shift)

                    def go():
                        dp = build().prepare(_B._init).pipe(_impl_filters(st["filters"]))
                        if vec is not None:
                            dp = dp.pipe(_B._timesouterproduct, vec)
                        return dp.pipe(_B._marginalize).reduce(add, np.zeros(int(clr.info["nbins"])))
                    todo = go
                else:
                    def todo():
                        return list(build(include_chroms=bool(st.get("include_chroms"))).run())
                try:
                    res = impl(todo)
                except ImplRaised as e:   # the modelled pipeline is total
                    return {"mismatch": True, "impl_raised": e.cls, "message": e.msg, "where": e.where, "step": si, "run": st,
                            "content_stored_at_that_moment": d, "same_cooler_object": same}
            seen = [kk for c in rec.passes for kk in c]
            stats["runs"] += 1
            stats["same_object_runs"] += int(same)
            stats["runs_after_replacement"] += int(st["run"] in replaced)
            bad = {}
            cov = drv().ask("C11.covers", n=nnz, spans=seen, lo=0, hi=nnz)
            if len(rec.passes) != 1 or not cov["covers"]:
                bad["keys_handed_to_map"] = rec.passes
                bad["note_keys"] = "the run must map once over spans that cover the stored table exactly once"
            if st["what"] == "reduce":
                stats["reductions"] += 1
                fs = list(st["filters"]) + ([] if st.get("w") is None else [{"f": "times", "vec": st["w"]}])
                model = drv().ask("C11.marginal", n=len(chrom), chrom=chrom, pixels=px, filters=fs, spans=seen,
                                  perm=list(range(len(seen))), lo=0, hi=nnz)
                if model["covers"] and model["reduced"] != model["whole"]:
                    raise AssertionError("L1 != L0: theorem balanceReduce_eq_whole contradicted")
                eff = (0 if st.get("w") is None else st.get("shift", 0)) + (0 if any(f["f"] == "binarize" for f in st["filters"]) else fk)
                if not _exact(np.asarray(res, dtype=float), model["whole"], eff):
                    bad.update({"impl": [float(x) for x in np.asarray(res, dtype=float)], "expected_times_4^shift": model["whole"], "shift": eff})
            else:
                stats["raw_chunk_runs"] += 1
                got = sorted((_canon_chunk(c, fk) for c in res), key=json_key)
                exp = []
                for sp in seen:
                    mc = drv().ask("C11.chunk", chrom=chrom, pixels=px, span=sp)
                    exp.append([_chrom_classes(mc["chrom"]), mc["pixels"]])
                exp.sort(key=json_key)
                if got != exp:
                    bad.update({"impl_chunks": got, "model_chunks": exp})
            if bad:
                return dict({"mismatch": True, "step": si, "run": st, "content_stored_at_that_moment": d, "same_cooler_object": same}, **bad)
    return {"stats": stats}


CHECKS = {"partition_unit": _partition_unit, "spans_unit": _spans_unit, "pipeline": _pipeline, "pipe_reuse": _pipe_reuse,
          "balance_schedules": _balance_schedules, "cli": _cli, "hist_balance": _hist_balance, "hist_pipeline": _hist_pipeline}


# ----------------------------------------------------------------------------------------------
# generators
# ----------------------------------------------------------------------------------------------

def _upper(n):
    return [(i, j) for i in range(n) for j in range(i, n)]


def _pixels_prefix(n, nnz, valfn):
    """the first nnz upper-triangle positions of an n-bin matrix (row-major)"""
    return [[i, j, valfn(i, j)] for (i, j) in _upper(n)[:nnz]]


def _rand_cooler(rng, maxbins, maxnnz, minnnz=0, dense=False, minchroms=1, minbins=2):
    nch = rng.choice([c for c in (1, 2, 2, 3) if c >= minchroms])
    n = rng.randint(max(nch, minbins), maxbins)
    cuts = sorted(rng.sample(range(1, n), nch - 1)) if nch > 1 else []
    chroms = [b - a for a, b in zip([0] + cuts, cuts + [n])]
    pos = _upper(n)
    hi = min(maxnnz, len(pos))
    nnz = rng.randint(min(minnnz, hi), hi) if not dense else hi
    sel = sorted(rng.sample(pos, nnz))
    style = rng.choice(["small", "small", "wide", "ones"])
    px = []
    for i, j in sel:
        if style == "ones":
            v = 1
        elif style == "wide":
            v = rng.choice([0, 1, 2, 5, 17, 100, 1000])
        else:
            v = rng.randint(1, 9)
        px.append([i, j, v])
    return chroms, px


def _rand_filters(rng):
    fs = []
    if rng.random() < 0.3:
        fs.append({"f": "binarize"})
    if rng.random() < 0.3:
        fs.append({"f": "zero_trans"})
    if rng.random() < 0.6:
        fs.append({"f": "zero_diags", "n": rng.randint(1, 3)})
    if rng.random() < 0.25:
        fs.append({"f": "zero_cis"})
    return fs


def _rand_weights(rng, n):
    shift = rng.randint(0, 6)
    return [rng.choice([0, 1, 1, 3, 5, 8, 21, 63]) if rng.random() < 0.9 else rng.randint(0, 63) for _ in range(n)], shift


def _rand_opts(rng, n, thorough, mode=None):
    mode = mode or rng.choice(["gw", "gw", "cis", "trans"])
    o = {"cis_only": mode == "cis", "trans_only": mode == "trans",
         "ignore_diags": rng.choice([0, 1, 1, 2]),
         "min_nnz": rng.choice([0, 0, 1, 2, 2]),
         "min_count": rng.choice([0, 0, 0, 3, 6]),
         "rescale_marginals": rng.random() < 0.8,
         "mad_max": rng.choice([0, 0, 1, 3, 5]),
         "blacklist": None if rng.random() < 0.7 else sorted(rng.sample(range(n), rng.randint(1, min(2, n)))),
         "tol": rng.choice([1e-5, 1e-5, 1e-3, 1e-2, 0.5, 1e-12]),
         "max_iters": rng.randint(1, 20 if thorough else 7)}
    return o


POOL_KINDS = ("pool.map", "pool.imap", "pool.imap_unordered")
SEQ_KINDS = ("builtin", "lazy", "list", "reversed", "shuffle")

# histories ---------------------------------------------------------------------------------------

DERIVE_KINDS = ("values", "positions", "pixels", "relayout", "relayout", "resize", "resize", "fresh")
SHARED_KINDS = ("shared.map", "shared.imap", "shared.imap_unordered")


def _rand_values(rng, positions):
    style = rng.choice(["small", "small", "wide", "ones"])
    out = []
    for i, j in positions:
        v = 1 if style == "ones" else rng.choice([0, 1, 2, 5, 17, 100, 1000]) if style == "wide" else rng.randint(1, 9)
        out.append([i, j, v])
    return out


def _rand_layout(rng, n, nch):
    cuts = sorted(rng.sample(range(1, n), nch - 1)) if nch > 1 else []
    return [b - a for a, b in zip([0] + cuts, cuts + [n])]


def _hist_content(rng, maxbins, maxnnz, n=None, chroms=None):
    """a content with at least two chromosomes (cis-only / trans-only runs say something)"""
    if chroms is None:
        n = n or rng.randint(4, maxbins)
        chroms = _rand_layout(rng, n, rng.choice([2, 2, 3]) if n >= 5 else 2)
    n = sum(chroms)
    pos = _upper(n)
    hi = min(maxnnz, len(pos))
    nnz = hi if rng.random() < 0.5 else rng.randint(min(5, hi), hi)
    return {"chroms": chroms, "pixels": _rand_values(rng, sorted(rng.sample(pos, nnz))), "fshift": 0}


def _derive(rng, d, kind, maxbins, maxnnz):
    """the content that REPLACES `d` at its URI"""
    chroms, px = d["chroms"], d["pixels"]
    n = sum(chroms)
    if kind == "values":        # same bins, same stored positions, other counts
        new = [[p[0], p[1], p[2] + rng.randint(1, 7)] for p in px]
        out = {"chroms": list(chroms), "pixels": new, "fshift": 0}
    elif kind == "positions":   # same bins, same nnz, other positions
        out = {"chroms": list(chroms), "pixels": _rand_values(rng, sorted(rng.sample(_upper(n), len(px)))), "fshift": 0}
    elif kind == "pixels":      # same bins, other stored pixels (any nnz)
        out = _hist_content(rng, maxbins, maxnnz, chroms=list(chroms))
    elif kind == "relayout":    # same number of bins, other chromosome boundaries
        lay = list(chroms)
        for _ in range(20):
            lay = _rand_layout(rng, n, rng.choice([2, 2, 3]) if n >= 5 else 2)
            if lay != list(chroms):
                break
        if rng.random() < 0.5:
            out = {"chroms": lay, "pixels": [list(p) for p in px], "fshift": 0}
        else:
            out = _hist_content(rng, maxbins, maxnnz, chroms=lay)
    elif kind == "resize":      # more or fewer bins
        cand = [m for m in (n - 3, n - 2, n - 1, n + 1, n + 2, n + 3) if 3 <= m <= maxbins]
        out = _hist_content(rng, maxbins, maxnnz, n=rng.choice(cand))
    else:
        out = _hist_content(rng, maxbins, maxnnz)
    if rng.random() < 0.2:
        out["fshift"] = rng.choice([1, 2, 3])
    return out


def _hist_uris(rng):
    r = rng.random()
    if r < 0.4:
        return [[0, None]]                               # one file, replaced in place
    if r < 0.6:
        return [[0, None], [1, None]]                    # two files
    if r < 0.8:
        return [[0, rng.choice(["a", "resolutions/10"])]]   # one group of a multi-cooler file
    return [[0, "resolutions/10"], [0, "resolutions/20"]]   # two groups of one file


def _hist_chunksize(rng, nnz):
    return rng.choice([None, 1, 2, 3, max(1, nnz // 2), max(1, nnz // 3), max(1, nnz - 1), max(1, nnz), nnz + 1, 10 ** 7])


def _hist_map(rng, pool):
    r = rng.random()
    if pool and r < 0.5:
        return rng.choice(SHARED_KINDS)
    if r < 0.06:
        return rng.choice(POOL_KINDS)
    return rng.choice(SEQ_KINDS)


def _history(rng, maxbins, maxnnz, mkrun, pool_p):
    """write / run / replace / run ... on one URI, a second URI visited in between in some histories"""
    uris = _hist_uris(rng)
    pool = rng.randint(2, 3) if rng.random() < pool_p else 0
    data, steps, at = [], [], {}

    def write(u, d):
        data.append(d)
        at[u] = len(data) - 1
        g = uris[u][1]
        steps.append({"write": u, "data": at[u], "how": "group" if g is not None else rng.choice(["unlink", "truncate"])})

    def run(u, **hint):
        st = {"run": u, "clr": rng.choice(["fresh", "fresh", "same"]), "map": _hist_map(rng, pool), "nproc": rng.randint(2, 3),
              "seed": rng.randint(0, 10 ** 6)}
        st["chunksize"] = _hist_chunksize(rng, len(data[at[u]]["pixels"]))
        st.update(mkrun(rng, data[at[u]], hint))
        steps.append(st)

    write(0, _hist_content(rng, maxbins, maxnnz))
    for _ in range(rng.randint(1, 2)):
        run(0)
    for _round in range(rng.randint(1, 3)):
        if len(uris) > 1 and rng.random() < 0.5:
            if 1 not in at or rng.random() < 0.6:
                write(1, _derive(rng, data[at.get(1, at[0])], rng.choice(DERIVE_KINDS), maxbins, maxnnz))
            run(1)
        kind = rng.choice(DERIVE_KINDS)
        write(0, _derive(rng, data[at[0]], kind, maxbins, maxnnz))
        run(0, first=True)
        for _ in range(rng.randint(1, 2)):
            run(0)
    return {"uris": uris, "data": data, "steps": steps, "pool": pool}


def _mkrun_balance(thorough):
    def mk(rng, d, hint):
        n = sum(d["chroms"])
        mode = rng.choice(["cis", "trans"] if hint.get("first") else ["gw", "cis", "cis", "trans"])
        o = _rand_opts(rng, n, thorough, mode)
        if rng.random() < 0.5:
            o.update({"min_nnz": 0, "min_count": 0, "mad_max": 0})
        # the oracle is the exact-rational model: its numbers grow about 4x in length per sweep
        wide = any(p[2] > 50 for p in d["pixels"])
        o["max_iters"] = rng.randint(1, 5 if len(d["pixels"]) <= 20 else 4) - (1 if wide and o["max_iters"] > 1 else 0)
        o["max_iters"] = max(1, o["max_iters"])
        return {"opts": o}
    return mk


def _mkrun_pipeline(rng, d, hint):
    if rng.random() < 0.2 and not hint.get("first"):
        return {"what": "chunks", "include_chroms": rng.random() < 0.5}
    fs = _rand_filters(rng)
    if hint.get("first") and not any(f["f"] in ("zero_trans", "zero_cis") for f in fs):
        fs.append({"f": rng.choice(["zero_trans", "zero_cis"])})
    w, shift = _rand_weights(rng, sum(d["chroms"])) if rng.random() < 0.5 else (None, 0)
    return {"what": "reduce", "filters": fs, "w": w, "shift": shift}



# regression corpus (minimised past failures first)
CORPUS = [
    # D21 (fixed 96e766b): empty cooler, cis_only, chunksize=None raised ValueError (range() step 0)
    ("balance_schedules", {"chroms": [2, 2], "pixels": [], "opts": {"cis_only": True, "trans_only": False, "ignore_diags": 2, "min_nnz": 10,
                                                                  "min_count": 0, "mad_max": 5, "blacklist": None, "tol": 1e-5, "max_iters": 3},
                           "chunksize": None, "map": "builtin", "nproc": 2, "seed": 0}),
    ("balance_schedules", {"chroms": [2, 2], "pixels": [], "opts": {"cis_only": True, "trans_only": False, "ignore_diags": 2, "min_nnz": 10,
                                                                  "min_count": 0, "mad_max": 5, "blacklist": None, "tol": 1e-5, "max_iters": 3},
                           "chunksize": 3, "map": "pool.imap_unordered", "nproc": 2, "seed": 0}),
    ("spans_unit", {"chroms": [2, 2], "pixels": [], "chunksize": None}),
]


def _chunk_sizes(nnz):
    return list(range(1, nnz + 2)) + [None]


def cases(tier, rng):
    thorough = tier == "thorough"
    for nm, c in CORPUS:
        yield nm, c

    # (a) units ------------------------------------------------------------------------------
    for lo in range(0, 13):
        for hi in range(lo, 13):
            for step in range(1, hi - lo + 3):
                yield "partition_unit", {"lo": lo, "hi": hi, "step": step}
    for _ in range(200 if thorough else 40):
        lo = rng.randint(0, 10 ** 6)
        ln = rng.randint(0, 200)
        yield "partition_unit", {"lo": lo, "hi": lo + ln, "step": rng.choice([1, 2, 3, 7, ln or 1, ln + 1, rng.randint(1, 250)])}
    for nnz in range(0, 13):
        # 5 bins on chromosomes of 2 + 1 + 2 bins: 15 upper-triangle positions, row-major prefix of length nnz
        px = _pixels_prefix(5, nnz, lambda i, j: 1 + (3 * i + j) % 4)
        for cs in list(range(1, nnz + 3)) + [None]:
            yield "spans_unit", {"chroms": [2, 1, 2], "pixels": px, "chunksize": cs}
    for _ in range(60 if thorough else 10):
        chroms, px = _rand_cooler(rng, 9, 30)
        yield "spans_unit", {"chroms": chroms, "pixels": px, "chunksize": rng.choice(_chunk_sizes(len(px)) + [len(px) + 7, 10 ** 7])}

    # (b) pipeline -----------------------------------------------------------------------------
    fixed = [([2, 2], []),                                             # empty cooler
             ([1], [[0, 0, 3]]),                                      # one pixel
             ([3, 2], [[0, 0, 1], [0, 4, 2], [1, 1, 3], [1, 2, 4], [1, 3, 5], [2, 2, 6], [3, 4, 7]]),   # 7: prime, empty last row
             ([2, 1, 2], _pixels_prefix(5, 12, lambda i, j: 1 + (i + 2 * j) % 5)),   # 12: many divisors
             ([2, 3], [[2, 2, 4], [2, 3, 1], [2, 4, 9], [3, 3, 2], [3, 4, 5], [4, 4, 8]])]   # first chromosome has no pixels
    coolers = list(fixed)
    for _ in range(16 if thorough else 3):
        coolers.append(_rand_cooler(rng, 8, 16 if thorough else 12, minnnz=3))
    for ci, (chroms, px) in enumerate(coolers):
        n = sum(chroms)
        nnz = len(px)
        stacks = [[], [{"f": "zero_diags", "n": 1}], _rand_filters(rng)]
        if thorough:
            stacks += [[{"f": "binarize"}, {"f": "zero_trans"}, {"f": "zero_diags", "n": 2}], _rand_filters(rng)]
        for si, fs in enumerate(stacks):
            w, shift = _rand_weights(rng, n) if si != 0 else (None, 0)
            for cs in _chunk_sizes(nnz):
                base = {"chroms": chroms, "pixels": px, "filters": fs, "w": w, "shift": shift, "chunksize": cs}
                for kind in SEQ_KINDS + ("perm_all",):
                    yield "pipeline", dict(base, map=kind, seed=rng.randint(0, 10 ** 6))
                # per-chromosome row ranges (the cis-only path: util.partition from a non-zero offset)
                if si == 1 or (thorough and si == 2):
                    for c in range(len(chroms)):
                        yield "pipeline", dict(base, map=rng.choice(SEQ_KINDS + ("perm_all",)), seed=rng.randint(0, 10 ** 6), cis_chrom=c)
                # process pools: every chunk size for the fixed coolers' second stack, a sample otherwise
                if (ci in (2, 3) and si == 1) or rng.random() < (0.25 if thorough else 0.06):
                    for kind in POOL_KINDS:
                        yield "pipeline", dict(base, map=kind, nproc=rng.randint(2, 4), seed=0)

    # (b2) value domain of the count column: float64 values below 1 (v * 4**-k) and signed / zero integers; the stacks are
    # the nnz marginal as the min_nnz pre-pass builds it (_binarize first) and a plain marginal of the float data
    signed = ([2, 2], [[0, 0, -3], [0, 1, 2], [0, 3, -1], [1, 1, 0], [1, 2, 5], [2, 3, -7], [3, 3, 4]])
    for ci, (chroms, px) in enumerate([signed] + coolers[2:]):
        n, nnz = sum(chroms), len(px)
        for si, fs in enumerate(([{"f": "binarize"}], [{"f": "binarize"}, {"f": "zero_diags", "n": 1}], [{"f": "zero_diags", "n": 1}])):
            fshift = rng.choice([1, 2, 3]) if (ci > 0 or si == 1) else 0
            w, shift = _rand_weights(rng, n) if si == 1 else (None, 0)
            for cs in _chunk_sizes(nnz):
                base = {"chroms": chroms, "pixels": px, "filters": fs, "w": w, "shift": shift, "chunksize": cs, "fshift": fshift}
                for kind in ("builtin", rng.choice(SEQ_KINDS[1:] + ("perm_all",))):
                    yield "pipeline", dict(base, map=kind, seed=rng.randint(0, 10 ** 6))
                if rng.random() < (0.15 if thorough else 0.05):
                    yield "pipeline", dict(base, map=rng.choice(POOL_KINDS), nproc=rng.randint(2, 4), seed=0)

    # (b3) one split(), keys spelled five ways, run / branched / re-run / gathered / iterated
    for ci, (chroms, px) in enumerate([coolers[2], coolers[3], coolers[4], signed] + coolers[5:(9 if thorough else 6)]):
        nnz = len(px)
        fs = [[], [{"f": "zero_diags", "n": 1}]][ci % 2]
        fshift = [0, 2][ci % 2] if ci < 4 else rng.choice([0, 1, 3])
        for cs in _chunk_sizes(nnz) + [nnz + 5]:
            for form in KEY_FORMS:
                if form == "default" and cs is None:
                    continue
                base = {"chroms": chroms, "pixels": px, "filters": fs, "fshift": fshift, "chunksize": cs, "keys": form}
                yield "pipe_reuse", dict(base, map="builtin", seed=0)
                yield "pipe_reuse", dict(base, map=rng.choice(SEQ_KINDS[1:]), seed=rng.randint(0, 10 ** 6))
                if rng.random() < (0.2 if thorough else 0.08):
                    yield "pipe_reuse", dict(base, map=rng.choice(POOL_KINDS), nproc=rng.randint(2, 4), seed=0)

    # (c) full balance_cooler across schedules -----------------------------------------------------
    nb = 60 if thorough else 18
    for bi in range(nb):
        big = thorough and bi % 4 == 0
        mode = ["gw", "cis", "trans"][bi % 3]
        chroms, px = _rand_cooler(rng, 10 if big else (8 if thorough else 7), 40 if big else (24 if thorough else 18), minnnz=6,
                                  dense=rng.random() < 0.6, minchroms=2 if mode == "trans" else 1, minbins=4)
        n, nnz = sum(chroms), len(px)
        opts = _rand_opts(rng, n, thorough, mode)
        if big:
            opts["max_iters"] = min(opts["max_iters"], 12)
        base = {"chroms": chroms, "pixels": px, "opts": opts}
        for cs in _chunk_sizes(nnz):
            yield "balance_schedules", dict(base, chunksize=cs, map="builtin", nproc=2, seed=0)
        spread = sorted({1, 2, 3, max(1, nnz // 2), max(1, nnz - 1), nnz, nnz + 1, rng.randint(1, max(1, nnz))})
        # the same matrix as a float64 column of values below 1 (count * 4**-k): same masks, weights rescaled
        fk = rng.choice([2, 2, 3])
        for cs in rng.sample(spread, min(4 if thorough else 3, len(spread))) + [None]:
            yield "balance_schedules", dict(base, chunksize=cs, map=rng.choice(["builtin", "shuffle", "pool.imap_unordered"]),
                                            nproc=2, seed=rng.randint(0, 10 ** 6), fshift=fk)
        for kind in ("lazy", "reversed", "shuffle") + POOL_KINDS:
            sizes = spread if (thorough or kind in ("shuffle", "pool.imap_unordered")) else rng.sample(spread, min(3, len(spread)))
            for cs in sizes + ([None] if kind == "pool.imap_unordered" else []):
                if kind.startswith("pool.") and cs is not None and cs < 2 and nnz > 24:
                    continue
                yield "balance_schedules", dict(base, chunksize=cs, map=kind, nproc=rng.randint(2, 4), seed=rng.randint(0, 10 ** 6))
    # default options (min_nnz=10, mad_max=5, ignore_diags=2) on a dense matrix, every mode
    for mode in ("gw", "cis", "trans"):
        chroms, px = [4, 4], [[i, j, 1 + ((7 * i + 3 * j) % 11)] for (i, j) in _upper(8)]
        opts = {"cis_only": mode == "cis", "trans_only": mode == "trans", "ignore_diags": 2, "min_nnz": 3, "min_count": 0, "mad_max": 5,
                "blacklist": None, "tol": 1e-5, "max_iters": 15 if thorough else 6}
        for cs, kind in ((5, "builtin"), (7, "shuffle"), (4, "pool.imap_unordered"), (36, "pool.map"), (1, "lazy") if thorough else (9, "lazy")):
            yield "balance_schedules", {"chroms": chroms, "pixels": px, "opts": opts, "chunksize": cs, "map": kind, "nproc": 3, "seed": 1}
            yield "balance_schedules", {"chroms": chroms, "pixels": px, "opts": opts, "chunksize": cs, "map": kind, "nproc": 3, "seed": 1, "fshift": 2}

    # (e) histories: the same URI written, run, replaced and run again in one process ---------------------------------
    for _ in range(160 if thorough else 40):
        yield "hist_pipeline", _history(rng, 9, 18, _mkrun_pipeline, 0.15)
    mk = _mkrun_balance(thorough)
    for _ in range(120 if thorough else 30):
        yield "hist_balance", _history(rng, 7, 18, mk, 0.15)

    # (d) CLI ------------------------------------------------------------------------------------------
    for k in range(4 if thorough else 1):
        chroms, px = [3, 3], [[i, j, 1 + ((5 * i + 2 * j + k) % 9)] for (i, j) in _upper(6)]
        opts = {"cis_only": k == 1, "trans_only": k == 2, "ignore_diags": 1, "min_nnz": 2, "min_count": 0, "mad_max": 3 if k == 3 else 0,
                "blacklist": None, "tol": 1e-5, "max_iters": 10}
        yield "cli", {"chroms": chroms, "pixels": px, "opts": opts, "chunksize": [4, 7, 5, 100][k], "nproc": 2 + k % 2}


def _hist_replaced_runs(case):
    """run steps on a URI that was run before and written again since"""
    ran, replaced, out = set(), set(), 0
    for st in case["steps"]:
        if "write" in st:
            if st["write"] in ran:
                replaced.add(st["write"])
        else:
            out += int(st["run"] in replaced)
            ran.add(st["run"])
    return out


def _hist_transitions(case):
    """how each replacement differs from the content it replaces"""
    at = {}
    for st in case["steps"]:
        if "write" not in st:
            continue
        new = case["data"][st["data"]]
        old = at.get(st["write"])
        at[st["write"]] = new
        if old is None:
            continue
        if sum(old["chroms"]) != sum(new["chroms"]):
            yield "other number of bins"
        elif old["chroms"] != new["chroms"]:
            yield "same number of bins, other chromosome layout"
        elif len(old["pixels"]) != len(new["pixels"]):
            yield "same bins, other nnz"
        else:
            yield "same bins and nnz, other pixels"
        if bool(old.get("fshift")) != bool(new.get("fshift")):
            yield "other dtype of the count column"


def nontrivial(name, case):
    if name == "partition_unit":
        return case["hi"] - case["lo"] > case["step"]
    if name.startswith("hist_"):
        return _hist_replaced_runs(case) > 0
    cs = case.get("chunksize")
    return cs is not None and len(case["pixels"]) > cs


def distribution(name, case):
    if name == "partition_unit":
        return
    if name.startswith("hist_"):
        for t in _hist_transitions(case):
            yield f"{name}.replacement: {t}"
        files = {f for f, _g in case["uris"]}
        yield f"{name}.uris={len(case['uris'])} in {len(files)} file(s), {'groups' if case['uris'][0][1] else 'root'}"
        if case.get("pool"):
            yield f"{name}.one pool for the whole history"
        for st in case["steps"]:
            if "run" in st:
                yield f"{name}.run map={st['map']}"
                if "opts" in st:
                    o = st["opts"]
                    yield f"{name}.run mode={'cis' if o['cis_only'] else 'trans' if o['trans_only'] else 'genome-wide'}"
                if "what" in st:
                    yield f"{name}.run what={st['what']}"
        return
    nnz, cs = len(case["pixels"]), case.get("chunksize")
    if cs is None:
        yield f"{name}.chunksize=None"
    elif cs > nnz:
        yield f"{name}.chunksize>nnz"
    elif nnz % cs:
        yield f"{name}.chunksize does not divide nnz"
    else:
        yield f"{name}.chunksize divides nnz"
    if "map" in case:
        yield f"{name}.map={case['map']}"
    if "opts" in case:
        o = case["opts"]
        yield f"{name}.mode={'cis' if o['cis_only'] else 'trans' if o['trans_only'] else 'genome-wide'}"
    if case.get("cis_chrom") is not None:
        yield f"{name}.rows=one chromosome"
    if case.get("fshift"):
        yield f"{name}.count column=float64 below 1"
    if any(p[2] < 0 for p in case["pixels"]):
        yield f"{name}.signed counts"
    if "keys" in case:
        yield f"{name}.keys={case['keys']}"


def _hist_valid(steps):
    have = set()
    for st in steps:
        if "write" in st:
            have.add(st["write"])
        elif st["run"] not in have:
            return False
    return any("run" in st for st in steps)


def _hist_shrink(case):
    steps = case["steps"]
    for i in range(len(steps)):                     # fewer steps
        c = steps[:i] + steps[i + 1:]
        if _hist_valid(c):
            yield dict(case, steps=c)
    if case.get("pool") and not any(st.get("map", "").startswith("shared.") for st in steps):
        yield dict(case, pool=0)
    for i, st in enumerate(steps):                  # simpler runs
        if "run" not in st:
            continue
        simple = {"map": "builtin", "clr": "fresh", "chunksize": None}
        for k, v in simple.items():
            if st.get(k) != v:
                yield dict(case, steps=steps[:i] + [dict(st, **{k: v})] + steps[i + 1:])
        if st.get("w") is not None:
            yield dict(case, steps=steps[:i] + [dict(st, w=None, shift=0)] + steps[i + 1:])
        for j in range(len(st.get("filters", []))):
            fs = st["filters"]
            yield dict(case, steps=steps[:i] + [dict(st, filters=fs[:j] + fs[j + 1:])] + steps[i + 1:])
        if "opts" in st:
            o = st["opts"]
            for k, v in {"ignore_diags": 0, "min_nnz": 0, "min_count": 0, "mad_max": 0, "blacklist": None, "max_iters": 1}.items():
                if o.get(k) != v:
                    yield dict(case, steps=steps[:i] + [dict(st, opts=dict(o, **{k: v}))] + steps[i + 1:])
    for k, d in enumerate(case["data"]):            # smaller contents
        if d.get("fshift"):
            yield dict(case, data=case["data"][:k] + [dict(d, fshift=0)] + case["data"][k + 1:])
        px = d["pixels"]
        for i in range(len(px) - 1, -1, -1):
            yield dict(case, data=case["data"][:k] + [dict(d, pixels=px[:i] + px[i + 1:])] + case["data"][k + 1:])


def shrink(name, case):
    if name == "partition_unit":
        for k in ("lo", "hi", "step"):
            if case[k] > (1 if k == "step" else 0):
                c = dict(case, **{k: case[k] - 1})
                if c["lo"] <= c["hi"]:
                    yield c
        return
    if name.startswith("hist_"):
        yield from _hist_shrink(case)
        return
    if case.get("map", "builtin") != "builtin" and name != "cli":
        yield dict(case, map="builtin")
    px = case["pixels"]
    for i in range(len(px) - 1, -1, -1):
        yield dict(case, pixels=px[:i] + px[i + 1:])
    if case.get("chunksize") and case["chunksize"] > 1:
        yield dict(case, chunksize=case["chunksize"] - 1)
    if any(p[2] != 1 for p in px):
        yield dict(case, pixels=[[p[0], p[1], 1] for p in px])
    if case.get("fshift"):
        yield dict(case, fshift=0)
    if name in ("pipeline", "pipe_reuse"):
        fs = case["filters"]
        for i in range(len(fs)):
            yield dict(case, filters=fs[:i] + fs[i + 1:])
        if case.get("w") is not None:
            yield dict(case, w=None, shift=0)
            if any(x != 1 for x in case["w"]):
                yield dict(case, w=[1] * len(case["w"]), shift=0)
    if "opts" in case:
        o = case["opts"]
        simple = {"ignore_diags": 0, "min_nnz": 0, "min_count": 0, "mad_max": 0, "blacklist": None, "max_iters": 1}
        for k, v in simple.items():
            if o.get(k) != v:
                yield dict(case, opts=dict(o, **{k: v}))


def escalate(name, case, rng):
    """a unit on spans stopped checking: look for an end-to-end failure (pipeline result or full balance run) on the
    neighbourhood of the disagreeing case — same nnz, every chunk size, whole table and every chromosome"""
    worker_init()
    if name == "spans_unit":
        chroms, px = case["chroms"], case["pixels"]
    elif name == "partition_unit":
        # chromosome 0 owns rows [0, 9) of 12: a span of its cis-only pass that overshoots reads another chromosome's pixels
        chroms, px = [2, 1, 2], _pixels_prefix(5, 12, lambda i, j: 1 + (i + j) % 3)
    else:
        return None
    nnz = len(px)
    for cs in _chunk_sizes(nnz):
        base = {"chroms": chroms, "pixels": px, "filters": [], "w": None, "shift": 0, "chunksize": cs, "map": "builtin", "seed": 0}
        todo = [("pipeline", base)] + [("pipeline", dict(base, cis_chrom=c)) for c in range(len(chroms))]
        for mode in ("gw", "cis"):
            opts = {"cis_only": mode == "cis", "trans_only": False, "ignore_diags": 0, "min_nnz": 0, "min_count": 0, "mad_max": 0,
                    "blacklist": None, "tol": 1e-5, "max_iters": 3}
            todo.append(("balance_schedules", {"chroms": chroms, "pixels": px, "opts": opts, "chunksize": cs, "map": "builtin", "nproc": 2, "seed": 0}))
        for nm, c in todo:
            r = CHECKS[nm](c)
            if isinstance(r, dict) and r.get("mismatch"):
                return {"check": nm, "case": c, "result": r}
    return None
