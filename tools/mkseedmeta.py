#!/usr/bin/env python3
"""seeded/<id>/meta.json from confirm.json + tools/seed_notes.json; prints the DESIGN.md table rows"""
import glob
import json
import os

HERE = os.path.dirname(os.path.dirname(os.path.abspath(__file__)))
notes = json.load(open(os.path.join(HERE, "tools", "seed_notes.json")))
rows = []
for d in sorted(glob.glob(os.path.join(HERE, "seeded", "*"))):
    sid = os.path.basename(d)
    cf = os.path.join(d, "confirm.json")
    if not os.path.exists(cf):
        continue
    c = json.load(open(cf))
    nn = notes.get(sid, ["", ""])
    what, needs = nn[0], nn[1]
    first = nn[2] if len(nn) > 2 else "caught on the first run"
    replays = {}
    for f in glob.glob(os.path.join(d, "check-*.txt")):
        chk = os.path.basename(f)[6:-4]
        txt = open(f).read()
        rp = [l[7:] for l in txt.splitlines() if l.startswith("REPLAY ")]
        replays[chk] = {"violation_lines": sum(1 for l in txt.splitlines() if l.startswith("VIOLATION")),
                        "first_replay": (json.loads(rp[0]) if rp else None) if rp and rp[0].endswith("}") else (rp[0][:600] if rp else None)}
    meta = {
        "id": sid, "breaks_property": c["property"], "change": what, "needs_to_manifest": needs,
        "history": first,
        "source": "independent sub-agent given only the property text and a scratch worktree of /repo",
        "confirmed": {
            "repo_head": c["repo_head"], "demo_exit_on_clean_tree": c["demo_exit_clean"], "demo_exit_with_change": c["demo_exit_patched"],
            "pinned_suite_with_change": f'{c["suite"]["passing"]}/{c["suite"]["baseline"]} of BASELINE stable_pass',
            "suite_missing": c["suite"]["missing"],
        },
        "checks_run": {k: ("VIOLATION (exit 1)" if v == 1 else "no alarm (exit 0)" if v == 0 else f"exit {v}") for k, v in c["checks"].items()},
        "replays": replays,
        "what_was_run": c["commands"],
    }
    json.dump(meta, open(os.path.join(d, "meta.json"), "w"), indent=1)
    caught = [k for k, v in c["checks"].items() if v == 1]
    rows.append(f"| {sid} | {what} | {needs} | {', '.join(caught) if caught else 'MISSED'}{'' if len(nn) < 3 else ' (after strengthening, see below)'} |")
print("| id | change | needs | caught by (quick tier) |\n|---|---|---|---|")
print("\n".join(rows))
