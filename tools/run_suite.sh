#!/bin/bash
# run cooler's pinned suite (guard off) and compare with BASELINE.json's stable_pass list
OUT=${1:-/tmp/suite.junit.xml}
cd /repo && env -u COOLER_VERIF /venv/bin/python -m pytest -ra -q -p no:cacheprovider --timeout=900 --continue-on-collection-errors --junitxml=$OUT > ${OUT%.xml}.log 2>&1
python3 - "$OUT" <<'PY'
import sys, json, xml.etree.ElementTree as ET
base = set(json.load(open('/root/.vp/BASELINE.json'))['stable_pass'])
ok = set()
for tc in ET.parse(sys.argv[1]).getroot().iter('testcase'):
    if not any(c.tag in ('failure', 'error', 'skipped') for c in tc):
        ok.add(f"{tc.get('classname')}::{tc.get('name')}")
missing = sorted(base - ok)
print(f"baseline {len(base)} passing-now {len(base & ok)} missing {missing}")
sys.exit(1 if missing else 0)
PY
