#!/bin/bash
# tools/sweep.sh [tier] [seeds...]   run every claimed check on the unchanged tree; prints one line per (check, seed)
cd /verif
TIER=${1:-quick}; shift
SEEDS=${@:-0}
IDS=$(python3 -c "import json;print(' '.join(c['property_id'] for c in json.load(open('MANIFEST.json'))['checks']))")
for S in $SEEDS; do for P in $IDS; do
  T0=$(date +%s); VERIF_SEED=$S ./check $P $TIER > /tmp/sweep-$P-$S.log 2>&1; EC=$?; T1=$(date +%s)
  echo "$P seed=$S exit=$EC $((T1-T0))s $(grep -c '^VIOLATION' /tmp/sweep-$P-$S.log) violations $(grep -c '^KNOWN-FINDING' /tmp/sweep-$P-$S.log) known"
done; done
