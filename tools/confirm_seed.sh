#!/bin/bash
# tools/confirm_seed.sh <PROP> <k> <dir-with-patch.diff-demo.py-notes.md> [checks...]
# Confirms a seeded change on a scratch worktree of /repo HEAD: demo passes clean / fails patched, pinned suite still
# passes, then runs the named checks (default: the property's) against the patched tree. Writes /verif/seeded/<PROP>-<k>/.
set -u
PROP=$1; K=$2; SRC=$3; shift 3
CHECKS=${@:-$PROP}
ID=$PROP-$K
WT=/tmp/cs-$ID
OUT=/verif/seeded/$ID
mkdir -p $OUT
cp $SRC/patch.diff $SRC/demo.py $OUT/ 2>/dev/null
[ -f $SRC/notes.md ] && cp $SRC/notes.md $OUT/notes.md
git -C /repo worktree remove --force $WT 2>/dev/null
git -C /repo worktree add -q --detach $WT HEAD || exit 3
HEADSHA=$(git -C /repo rev-parse --short HEAD)
cd $WT
export TMPDIR=/tmp/cs-tmp-$ID; mkdir -p $TMPDIR
/venv/bin/python $OUT/demo.py $WT > $OUT/demo_clean.txt 2>&1; DC=$?
if ! git apply $OUT/patch.diff 2> $OUT/apply.err; then
  # the change was written against an earlier HEAD and touches lines a later fix: commit changed: confirm it on its own base
  BASE=${SEED_BASE:-2bcd28a}
  cd /; git -C /repo worktree remove --force $WT; git -C /repo worktree add -q --detach $WT $BASE || exit 3
  HEADSHA="$BASE (base of the change; HEAD is $HEADSHA)"; cd $WT
  if ! git apply $OUT/patch.diff 2> $OUT/apply.err; then echo "APPLY FAILED"; cat $OUT/apply.err; fi
fi
/venv/bin/python $OUT/demo.py $WT > $OUT/demo_patched.txt 2>&1; DP=$?
# pinned suite on the patched tree (stable_pass list from BASELINE)
( cd $WT && env -u COOLER_VERIF PYTHONPATH=$WT/src /venv/bin/python -m pytest -q -p no:cacheprovider --timeout=900 --continue-on-collection-errors --junitxml=$TMPDIR/junit.xml > $TMPDIR/suite.log 2>&1 )
SUITE=$(python3 - $TMPDIR/junit.xml $WT <<'PY'
import sys, json, xml.etree.ElementTree as ET
base = set(json.load(open('/root/.vp/BASELINE.json'))['stable_pass'])
ok = set()
for tc in ET.parse(sys.argv[1]).getroot().iter('testcase'):
    if not any(c.tag in ('failure', 'error', 'skipped') for c in tc):
        ok.add(f"{tc.get('classname')}::{tc.get('name')}".replace(sys.argv[2], "/repo"))
print(json.dumps({"baseline": len(base), "passing": len(base & ok), "missing": sorted(base - ok)}))
PY
)
RES="{}"
cd /verif
declare -A R
for C in $CHECKS; do
  for TIER in quick; do
    COOLER_REPO=$WT VERIF_OUT=$TMPDIR/out ./check $C $TIER > $TMPDIR/check-$C.txt 2>&1; EC=$?
    R[$C]=$EC
    grep -h "VIOLATION\|KNOWN\|INFRA" $TMPDIR/check-$C.txt | head -5 > $OUT/check-$C.txt
    tail -1 $TMPDIR/check-$C.txt >> $OUT/check-$C.txt
    for f in $TMPDIR/out/replays/$C-*.json; do [ -f "$f" ] && python3 - "$f" >> $OUT/check-$C.txt <<'PY'
import json,sys
r=json.load(open(sys.argv[1])); print("REPLAY", json.dumps({k:r[k] for k in r if k in ("check","level","case","result","found_by")})[:1500])
PY
    done
  done
done
python3 - <<PY
import json
r={"id":"$ID","property":"$PROP","repo_head":"$HEADSHA","demo_exit_clean":$DC,"demo_exit_patched":$DP,"suite":$SUITE,
   "checks":{$(for C in $CHECKS; do echo "\"$C\": ${R[$C]},"; done)},
   "commands":["git -C /repo worktree add --detach $WT HEAD; git apply patch.diff","python demo.py <tree> (clean, patched)","pytest (pinned suite, PYTHONPATH=<tree>/src)","COOLER_REPO=<tree> ./check <Cxx> quick"]}
json.dump(r,open("$OUT/confirm.json","w"),indent=1)
print(json.dumps(r))
PY
git -C /repo worktree remove --force $WT
rm -rf $TMPDIR
