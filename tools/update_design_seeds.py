#!/usr/bin/env python3
import json, os, re, subprocess
HERE = os.path.dirname(os.path.dirname(os.path.abspath(__file__)))
table = subprocess.run(["python3", os.path.join(HERE, "tools", "mkseedmeta.py")], capture_output=True, text=True).stdout
notes = json.load(open(os.path.join(HERE, "tools", "seed_notes.json")))
hist = "\n".join(f"* **{k}** — {v[2]}." for k, v in sorted(notes.items()) if len(v) > 2 and os.path.exists(os.path.join(HERE, "seeded", k, "confirm.json")))
p = os.path.join(HERE, "DESIGN.md")
s = open(p).read()
s = re.sub(r"<!-- SEED-TABLE-BEGIN -->.*<!-- SEED-TABLE-END -->", "<!-- SEED-TABLE-BEGIN -->\n" + table.replace("\\", "\\\\") + "<!-- SEED-TABLE-END -->", s, flags=re.S)
s = re.sub(r"<!-- SEED-HISTORY-BEGIN -->.*<!-- SEED-HISTORY-END -->", "<!-- SEED-HISTORY-BEGIN -->\n" + hist.replace("\\", "\\\\") + "\n<!-- SEED-HISTORY-END -->", s, flags=re.S)
open(p, "w").write(s)
print(table.count("\n") - 2, "seeds in table")
