#!/bin/bash
# tools/seed_regression.sh [ids...]   re-run the property's quick check against every confirmed seeded change (patch applied on a
# scratch worktree of /repo HEAD); expected exit 1 for each. Writes /verif/seeded/regression.json. No suite, no demo.
cd /verif
WT=/tmp/sr-wt
git -C /repo worktree remove --force $WT 2>/dev/null
git -C /repo worktree add -q --detach $WT HEAD || exit 3
IDS=${@:-$(ls seeded | grep -E '^C[0-9]+-[0-9]+$' | sort -t- -k1,1 -k2,2n)}
OUT=/tmp/sr-out; mkdir -p $OUT
echo "{" > $OUT/res.txt
for ID in $IDS; do
  P=${ID%%-*}
  git -C $WT checkout -q . ; git -C $WT clean -fdq
  if ! git -C $WT apply /verif/seeded/$ID/patch.diff 2>/dev/null; then
    # written against an earlier HEAD (lines changed by a later fix: commit): run it on its own base
    git -C $WT checkout -q 2bcd28a; git -C $WT clean -fdq
    if ! git -C $WT apply /verif/seeded/$ID/patch.diff 2>/dev/null; then echo "\"$ID\": \"apply-failed\"," >> $OUT/res.txt; git -C $WT checkout -q --detach $(git -C /repo rev-parse HEAD); continue; fi
    ONBASE=" (on base 2bcd28a)"
  else ONBASE=""; fi
  COOLER_REPO=$WT VERIF_OUT=$OUT/o ./check $P quick > $OUT/$ID.txt 2>&1; EC=$?
  echo "$ID exit=$EC$ONBASE $(tail -1 $OUT/$ID.txt | cut -c1-100)"
  [ -n "$ONBASE" ] && git -C $WT checkout -q . && git -C $WT checkout -q --detach $(git -C /repo rev-parse HEAD)
  if [ $EC -eq 0 ] && [ -f /verif/seeded/$ID/demo.py ]; then
    # not caught: does the change still break anything on this tree? (a later fix: commit may have neutralised it)
    /venv/bin/python /verif/seeded/$ID/demo.py $WT > $OUT/$ID.demo.txt 2>&1; DEC=$?
    if [ $DEC -eq 0 ]; then echo "\"$ID\": \"neutralised on HEAD by a later fix (its own demonstration passes); kept on its base\"," >> $OUT/res.txt; continue; fi
  fi
  echo "\"$ID\": $EC," >> $OUT/res.txt
done
echo "\"_head\": \"$(git -C /repo rev-parse --short HEAD)\"}" >> $OUT/res.txt
python3 -c "
import json,re
s=open('$OUT/res.txt').read()
new=json.loads(s)
try: old=json.load(open('/verif/seeded/regression.json'))
except Exception: old={}
old.update(new)
json.dump(old, open('/verif/seeded/regression.json','w'), indent=1, sort_keys=True)"
git -C /repo worktree remove --force $WT
