#!/bin/bash
# tools/harmless_regression.sh [ids...]   re-run, against every kept behaviour-preserving rewrite (harmless/<id>/patch.diff applied
# on a scratch worktree of /repo HEAD), the quick checks that were run when it was confirmed; expected exit 0 for each.
# Writes /verif/harmless/regression.json.  WT/OUT can be redirected with HR_TAG for parallel runs.
cd /verif
TAG=${HR_TAG:-0}
WT=/tmp/hr-wt-$TAG
git -C /repo worktree remove --force $WT 2>/dev/null
git -C /repo worktree add -q --detach $WT HEAD || exit 3
IDS=${@:-$(ls harmless | grep -E '^C[0-9]+-h[0-9]+$' | sort)}
OUT=/tmp/hr-out-$TAG; mkdir -p $OUT
: > $OUT/res.txt
for ID in $IDS; do
  git -C $WT checkout -q . ; git -C $WT clean -fdq
  if ! git -C $WT apply /verif/harmless/$ID/patch.diff 2>/dev/null; then echo "$ID apply-failed" >> $OUT/res.txt; echo "$ID apply-failed"; continue; fi
  CHECKS=$(python3 -c "import json;print(' '.join(sorted(json.load(open('/verif/harmless/$ID/confirm.json'))['checks'])))")
  [ -n "${HR_OWN:-}" ] && CHECKS=${ID%%-*}          # HR_OWN=1: only the check of the rewrite's own property
  for C in $CHECKS; do
    COOLER_REPO=$WT VERIF_OUT=$OUT/o-$ID-$C ./check $C quick > $OUT/$ID-$C.txt 2>&1; EC=$?
    echo "$ID $C $EC" >> $OUT/res.txt
    echo "$ID $C exit=$EC $(grep -h '^VIOLATION' $OUT/$ID-$C.txt | head -1 | cut -c1-160)"
    [ $EC -eq 0 ] && rm -rf $OUT/o-$ID-$C
  done
done
python3 - $OUT/res.txt <<'PY'
import json, sys, subprocess
try: old = json.load(open('/verif/harmless/regression.json'))
except Exception: old = {}
for l in open(sys.argv[1]):
    f = l.split()
    if len(f) == 2: old[f[0]] = "apply-failed"
    else: old.setdefault(f[0], {}) if isinstance(old.get(f[0]), dict) else old.__setitem__(f[0], {}); old[f[0]][f[1]] = int(f[2])
old["_head"] = subprocess.run(["git", "-C", "/repo", "rev-parse", "--short", "HEAD"], capture_output=True, text=True).stdout.strip()
json.dump(old, open('/verif/harmless/regression.json', 'w'), indent=1, sort_keys=True)
PY
git -C /repo worktree remove --force $WT
