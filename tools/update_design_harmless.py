#!/usr/bin/env python3
"""Regenerate the table of behaviour-preserving rewrites (false-alarm probes) in DESIGN.md from harmless/*/confirm.json
and tools/harmless_notes.json ({id: [what was rewritten, remark]})."""
import glob, json, os, re
root = os.path.dirname(os.path.dirname(os.path.abspath(__file__)))
notes = json.load(open(os.path.join(root, "tools", "harmless_notes.json"))) if os.path.exists(os.path.join(root, "tools", "harmless_notes.json")) else {}
rows = []
def key(p):
    m = re.match(r".*/(C\d+)-h(\d+)$", p)
    return (m.group(1), int(m.group(2)))
for d in sorted(glob.glob(os.path.join(root, "harmless", "C*-h*")), key=key):
    f = os.path.join(d, "confirm.json")
    if not os.path.exists(f):
        continue
    c = json.load(open(f))
    what, remark = (notes.get(c["id"]) or ["", ""])[:2]
    quiet = [k for k, v in sorted(c["checks"].items()) if v == 0]
    loud = [f"{k} (exit {v})" for k, v in sorted(c["checks"].items()) if v != 0]
    suite = f'{c["suite"]["passing"]}/{c["suite"]["baseline"]}'
    rows.append(f'| {c["id"]} | {what} | {suite} | {c.get("equiv_digest") or "-"} | {", ".join(quiet) or "-"} | {", ".join(loud) or "none"} | {remark} |')
table = ["| id | rewrite | pinned suite | author's digest clean vs rewritten | checks run, exit 0 | checks that raised an alarm | remark |",
         "|---|---|---|---|---|---|---|"] + rows
p = os.path.join(root, "DESIGN.md")
s = open(p).read()
b, e = "<!-- HARMLESS-TABLE-BEGIN -->", "<!-- HARMLESS-TABLE-END -->"
assert b in s and e in s
s = s[:s.index(b) + len(b)] + "\n" + "\n".join(table) + "\n" + s[s.index(e):]
open(p, "w").write(s)
print(len(rows), "rewrites in table")
