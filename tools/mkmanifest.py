#!/usr/bin/env python3
"""Regenerate MANIFEST.json from the table below (keeps the file valid at all times)."""
import json
import os

HERE = os.path.dirname(os.path.dirname(os.path.abspath(__file__)))

# pid -> (design_ref, technique, level text, level note)
CLAIMED = {
    "C20": ("DESIGN.md §5 C20",
            "Lean 4 theorems (binnify_eq_spec, getBinsize_truthful, getChromsizes_mem) + exhaustive differential correspondence of the Lean definitions with util.binnify/get_binsize/get_chromsizes",
            "Proof: binnify's edge construction equals the promised tiling for all size tables and widths; a reported bin size implies every bin is [k*b, min((k+1)*b, L)) on every valid segmentation; reported lengths are ends of last bins. The Lean definitions are executed against the real functions on every segmentation of small genomes.",
            "Trusted: Lean kernel; hand-written model tied by the correspondence harness; pandas groupby/drop_duplicates and float division are primitives."),
    "C03": ("DESIGN.md §5 C03",
            "Lean 4 theorems (direct_correct, fillLower_mem, fillLower_nodup, fillLower_correct, chunk independence for every valid span list) + exhaustive all-windows differential correspondence with Cooler.matrix in dense/sparse/pixel form",
            "Proof: for every row-sorted store with a correct index, every window and every valid row-span choice, the direct engine returns exactly the stored records of the window in storage order and the fill-lower engine returns, without duplicates, exactly the sub-block of the symmetric completion. The Lean spec is compared with the real selectors on every window of [0,n]^4 for small n.",
            "Trusted: Lean kernel; hand-written model of CSRReader/RangeQuery2D tied by correspondence; h5py/numpy/scipy primitives; spans are a free unit checked by contract."),
    "C02": ("DESIGN.md §5 C02",
            "Lean 4 theorems (rlencodeChunked_eq, indexPixels_spec, writePixels_concat, create_valid) + raw-HDF5 monitor evaluating the Lean schema predicate on every collection written by seeded histories of producing operations",
            "Proof: the chunked run-length encoder equals the unchunked one for every block size; offsets built from runs equal the run-length index for every non-decreasing column; a validated chunk stream yields a store satisfying every schema clause. The predicate the theorem concludes is evaluated on raw dumps of all files written by create/unordered/merge/coarsen/zoomify/scool/CLI loaders.",
            "Trusted: Lean kernel; model of rlencode/index_pixels/write_pixels tied by unit correspondences (exhaustive small arrays, all block sizes, >10^6-pixel creation in thorough); h5py raw reads."),
}

NOT_YET = {}

props = [json.loads(l) for l in open(os.path.join(HERE, "properties.jsonl"))]
checks, na = [], []
for p in props:
    pid = p["id"]
    if pid in CLAIMED:
        ref, tech, text, note = CLAIMED[pid]
        checks.append({
            "property_id": pid,
            "quick_cmd": f"./check {pid} quick",
            "thorough_cmd": f"./check {pid} thorough",
            "evidence_file": f"/verif/evidence/{pid}.json",
            "replay_cmd_template": f"./check {pid} --replay {{path}}",
            "engine": "lean-proof+correspondence",
            "level_claimed": {"category": "proof", "text": text, "design_ref": ref},
            "level_note": note,
            "technique": tech,
        })
    else:
        na.append({"property_id": pid, "reason": NOT_YET.get(pid, "check not built yet in this round (machinery under construction; see DESIGN.md §10 build order)")})

man = {
    "version": 1,
    "setup_cmd": "cd lean && lake build",
    "hooks": {
        "guard": "COOLER_VERIF",
        "enable": "no source hooks are needed: the harness imports /repo/src directly (PYTHONPATH) and observes through public API, module-level functions and raw HDF5; COOLER_VERIF=1 is exported by ./check for completeness",
        "baseline_off_cmd": "cd /repo && /venv/bin/python -m pytest -ra -q -p no:cacheprovider --timeout=900 --continue-on-collection-errors",
        "source_commits": [],
        "add_only": True,
    },
    "engines": [{
        "name": "lean-proof+correspondence",
        "path": "/verif/lean (model, theorems, driver) + /verif/harness (differential correspondence against /repo/src)",
        "serves_properties": sorted(CLAIMED),
        "kind_free_text": "Machine-checked Lean 4 theorems about a hand-written executable model; the model's definitions are run by a compiled driver against the real implementation on enumerated and generated inputs",
    }],
    "checks": checks,
    "not_applicable": na,
    "notes": "exit 2 = infrastructure failure (Lean build/audit or harness crash), never a verdict. Known findings: /verif/known_findings.json.",
}
json.dump(man, open(os.path.join(HERE, "MANIFEST.json"), "w"), indent=1)
print(f"{len(checks)} claimed, {len(na)} not claimed")
