#!/usr/bin/env python3
"""Regenerate MANIFEST.json from the table below (keeps the file valid at all times)."""
import json
import os

HERE = os.path.dirname(os.path.dirname(os.path.abspath(__file__)))

# pid -> (design_ref, technique, level text, level note)
CLAIMED = {
    "C20": ("DESIGN.md §5 C20",
            "Lean 4 theorems (binnify_eq_spec, getBinsize_truthful, getChromsizes_mem, binnify_roundtrip, binnify_regrid) + exhaustive differential correspondence of the Lean definitions with util.binnify/get_binsize/get_chromsizes over every numeric form of the tables and magnitudes around every machine-integer limit",
            "Proof: binnify's edge construction equals the promised tiling for all size tables and widths; a reported bin size implies every bin is [k*b, min((k+1)*b, L)) on every valid segmentation; reported lengths are ends of last bins. The Lean definitions are executed against the real functions on every segmentation of small genomes.",
            "Trusted: Lean kernel; hand-written model tied by the correspondence harness; pandas groupby/drop_duplicates and float division are primitives."),
    "C03": ("DESIGN.md §5 C03",
            "Lean 4 theorems (direct_correct, fillLower_mem, fillLower_nodup, fillLower_correct, chunk independence for every valid span list) + exhaustive all-windows differential correspondence with Cooler.matrix in dense/sparse/pixel form",
            "Proof: for every row-sorted store with a correct index, every window and every valid row-span choice, the direct engine returns exactly the stored records of the window in storage order and the fill-lower engine returns, without duplicates, exactly the sub-block of the symmetric completion. The Lean spec is compared with the real selectors on every window of [0,n]^4 for small n.",
            "Trusted: Lean kernel; hand-written model of CSRReader/RangeQuery2D tied by correspondence; h5py/numpy/scipy primitives; spans are a free unit checked by contract."),
    "C02": ("DESIGN.md §5 C02",
            "Lean 4 theorems (rlencodeChunked_eq, indexPixels_spec, writePixels_concat, create_valid, create_ensureSorted_valid, linKey_lt_iff, legacy_levels_ok) + raw-HDF5 monitor evaluating the Lean schema predicate on every collection written by seeded histories of producing operations",
            "Proof: the chunked run-length encoder equals the unchunked one for every block size; offsets built from runs equal the run-length index for every non-decreasing column; a validated chunk stream yields a store satisfying every schema clause. The predicate the theorem concludes is evaluated on raw dumps of all files written by create/unordered/merge/coarsen/zoomify/scool/CLI loaders.",
            "Trusted: Lean kernel; model of rlencode/index_pixels/write_pixels tied by unit correspondences (exhaustive small arrays, all block sizes, >10^6-pixel creation in thorough); h5py raw reads."),
    "C01": ("DESIGN.md §5 C01",
            "Lean 4 theorems (pixels_roundtrip, matrix_roundtrip_symm/_square, arrayLoader_spec, sortByKey_strict, checkedWrite_exact/_refuses_iff, unordered_eq_frame, unordered_roundtrip, specWindow_local, specDense_local) composing the proved write path (C02) and read path (C03) + differential round trips over input forms, given x stored dtypes, extra columns, HDF5 filter options, metadata documents, sequences of creations in one process and a > 10^6-pixel creation",
            "Proof: the stored table is the concatenation of the chunks for every chunking; the full-matrix query of the created store is the stored matrix (square) / exactly the symmetric completion without duplicates (symmetric-upper); the array loader's stream equals the upper triangle for every chunk size; a frame with distinct keys is stored as its strictly sorted permutation; an integer column is stored exactly or the write is refused, and refused exactly when a saturating write would alter a value. Real create_cooler/pixels()/matrix()/info are compared with the Lean definitions.",
            "Trusted: Lean kernel; hand-written model tied by correspondence; HDF5 filters/dtype conversion, pandas sort, simplejson round trip are primitives. Known finding D16 (assembly JSON-decoded) is matched narrowly."),
    "C06": ("DESIGN.md §5 C06",
            "Lean 4 theorems (unordered_eq_aggregate, passes_irrelevant, split/chunk order irrelevance via the groupSum extensionality principle) + differential correspondence over chunkings, orders, merge buffers, max-merge fan-ins; first-pass groups observed through the log and checked by contract",
            "Proof: one pass or two passes over any valid grouping of the chunks store exactly the per-pixel sum of all records; independent of split, chunk order and pre-sorting. Real create_cooler(ordered=False) and `cooler load` are compared with the Lean aggregate; temp directory observed.",
            "Trusted: Lean kernel; model tied by correspondence; tempfile lifetime observed not proved; linspace edges are a free unit checked by contract."),
    "C07": ("DESIGN.md §5 C07",
            "Lean 4 theorems (merger_eq_spec and merger_agg_eq_spec for every valid epoch partition and ANY aggregation function, breakpoints_contract, merge_comm, merge_assoc, merge_sum, buffer independence, compat_accepts_iff / merge_refuses / fastpath_sound / uniform_table_unique for the refusal clause) + exhaustive-mergebuf differential correspondence with merge_coolers, refusal and dtype-limit cases",
            "Proof: for strictly sorted inputs and ANY valid partition the streaming k-way merger yields exactly the per-pixel aggregate in storage order; the aggregate is commutative, associative and preserves totals. Real merge_coolers is run for every mergebuf 1..sum(nnz)+1 and input order and compared with Lean mergeSpec; incompatible inputs must be refused; overflowing aggregates must err.",
            "Trusted: Lean kernel; model tied by correspondence; pandas groupby/concat primitives; merge_breakpoints is a free unit checked by contract (and the modelled loop is proved to satisfy it); any aggregation function is covered by merger_agg_eq_spec on integer columns."),
    "C11": ("DESIGN.md §5 C11",
            "Lean 4 theorems (spans_cover_once, partition_cover_once, marginal_split over any commutative monoid and any permutation of chunk results, balance_data_only, run_data_only over histories of writes and runs) + differential runs of the real split-apply-combine pipeline and balance_cooler under every chunk size and many map implementations",
            "Proof: the spans the code builds cover every stored pixel exactly once for every chunk size; any additive per-chunk functional folded in any completion order equals its value on the whole table. The real pipeline is run bit-exactly on integer data under sequential, lazy, pool and adversarially permuted maps with a visit log; full balance runs are compared across schedules.",
            "Trusted: Lean kernel; model tied by correspondence; real process scheduling observed for <=4 workers; float non-associativity bounded (1e-9), not modelled."),
    "C19": ("DESIGN.md §5 C19",
            "Lean 4 theorems (humanized_exact, strict_parses, parse_format_id, region_refuses, uri_slash, parseRegion_sound) about a character-level model of the tokenizer and parsers + exhaustive differential sweep over all short strings",
            "Proof: well-formed numerals and regions parse to exactly what they denote (exact decimal scaling), format-then-parse is the identity for every good name and s<=e, each malformed class is refused, URIs split alike however the slash is written. The Lean scanner is compared with the real regex-based parser on every string up to length 6-7 over two alphabets.",
            "Trusted: Lean kernel; model tied by correspondence; ASCII input; Python re/Decimal/int primitives."),
    "C10": ("DESIGN.md §5 C10",
            "Lean 4 + Mathlib theorems (final_step_bound, variance_gives_delta, converged_rowsums_bound, cis_bound, marginalize_eq_rowsum, mask_iff, others_positive) + exact-rational executable model compared with balance_cooler, and the proved interval evaluated by Lean on converged float runs",
            "Proof: when the variance test passes with tol*N < scale^2 every retained row sum of the filtered symmetric matrix under the returned weights lies in [1/(1+d), 1/(1-d)], d = sqrt(tol*N)/scale (per chromosome in cis mode); a weight is NaN exactly on the excluded bins or data-less domains, every other weight is positive. The Rat model is compared with the real code (masks exactly, weights to 1e-9, ties skipped) and real converged runs are checked against the proved interval. D17 (doubled diagonal at ignore_diags=0) and D18 (trans-only) are recorded findings with machine-checked witnesses and variant oracles.",
            "Trusted: Lean kernel + Mathlib single modules; model tied by correspondence; IEEE rounding and libm log/exp not modelled (1e-9 slack, tie skipping); exact rationals limit compared runs to <=6 sweeps."),
    "C14": ("DESIGN.md §5 C14",
            "Lean 4 theorems (processSlice_spec, slice_rows, column_selection_commutes, annotate_correct for both strategy branches and every partial table, annotate_forms_agree, chrom_decode_agree) + exhaustive differential correspondence over all in-domain row keys, column subsets and contiguous bin-table parts",
            "Proof: an in-domain row key on any table selector returns exactly the stored rows of the normalised range labelled with their row numbers for any column subset; column selection commutes with row selection; annotation against the whole table, a selector or any contiguous part containing the needed bins attaches each pixel's own two bins and keeps order and index. Real selectors and cooler.annotate are compared with the Lean table model.",
            "Trusted: Lean kernel; model tied by correspondence; h5py slicing, pandas iloc/loc/concat, enum decoding are primitives."),
    "C17": ("DESIGN.md §5 C17",
            "Lean 4 theorems (scool_cell_reads, scool_bins_shared, scool_extra_cols_per_cell, scool_listing over a layered object-id file model) + differential correspondence incl. HDF5 object identity",
            "Proof: for distinct valid cell names every cell reads exactly the pixels supplied for it over the common table, the chroms group and the three main bin columns of every cell are the root's objects, extra bin columns are per cell, the listing names exactly the given cells and the file is recognised. Real create_scool output is compared per cell and by HDF5 object address.",
            "Trusted: Lean kernel; model tied by correspondence; HDF5 hard links/groups are primitives; listing order not promised (compared as sets)."),
    "C18": ("DESIGN.md §5 C18",
            "Lean 4 theorems (rename_names, rename_data_unchanged, rename_labels, rename_lookup, rename_lookup_stale, rename_compose, chain_observe for enum and integer encodings incl. the enum-header fallback) + differential correspondence over all partial injective maps and chains",
            "Proof: renaming rewrites names in the original order and nothing else (lengths, codes, starts/ends, pixels, indexes, attributes); lookups by the new name return what the old name returned, stale names are not found, successive maps compose; the same object's cache equals a reopened one. Real rename_chroms is observed on the same object, after reopening and on raw datasets.",
            "Trusted: Lean kernel; model tied by correspondence; HDF5 enum header limit is a model parameter (theorems hold for both outcomes)."),
    "C13": ("DESIGN.md §5 C13",
            "Lean 4 theorems (validate_accepts_iff, validate_rejects, format_last, partial_not_cooler, frame_other_collections, pipeline_dest_untouched, bad_metadata_never_completes, bad_opts_dest_untouched by induction over the step list of create()) + exhaustive fault enumeration, crossed with the producers' keyword options, against the real producers",
            "Proof: the validator accepts a chunk iff ids are in range, upper-triangular in symmetric mode and keys distinct; for EVERY strict prefix of create()'s steps the target carries no format attribute (unless it is a root that already was a cooler), so after any fault it is neither recognised nor listed, and in append mode every collection outside the target's footprint is unchanged; faults inside temporary files of merge/coarsen/unordered pipelines leave the destination untouched. Every invalid-record kind at every chunk index and position, and an iterator exception before every chunk, are injected into ordered/unordered creation, merge and coarsen over several destination kinds.",
            "Trusted: Lean kernel; model tied by correspondence (partial file state compared with runUntil k); exceptions leaving create() only - process kill and torn HDF5 writes are outside."),
    "C12": ("DESIGN.md §5 C12",
            "Lean 4 theorems parametric in an uninterpreted carrier (dense_spec, sparse_spec, pixels_spec, bias_alias_sound, missing_column_error, divisive_default_iff, contracts) + bit-for-bit differential correspondence with Lean Float on every window and output form",
            "Proof: for every window, weight vector and raw content each balanced value is the product of exactly the raw value, the row bin's weight and the column bin's weight (reciprocals when divisive; divisive by default exactly for KR/VC/VC_SQRT), the aliasing shortcut equals slicing the column range, a missing column is an error in all forms. The model instantiated at IEEE binary64 is compared bit for bit with Cooler.matrix(balance=...) in dense/sparse/pixel form and with cooler dump -b; a pure re-bracketing of the product is a free choice checked by contract.",
            "Trusted: Lean kernel; Lean Float = IEEE binary64 (checked against numpy on random bit patterns every run); model fed with the raw result of the same query so that range-query bugs are C03's."),
    "C05": ("DESIGN.md §5 C05",
            "Lean 4 theorems (binAssign_var_correct, binAssign_fixed_correct via C20.getBinsize_truthful, assign_le_of_lex, sanitize_count_once, aggregated_eq_spec, sanitize_reflect_upper, sanitize_order_independent, sanitize_one_based, tabix_correct, groupFirst_perm_groupCells, hiclib_chunks_cover, hiclib_eq_spec, hiclib_chunksize_independent, hiclib_rejects_outside, hiclib_drops_unlisted) + exhaustive single-record and seeded multiset correspondence through the API, the text loaders, the tabix loader and the hiclib HDF5 loader",
            "Proof: for positions inside their chromosome the assigned bin is the bin containing the position (both paths) and lies on that chromosome; the aggregated output holds one unit per retained record at its pixel after orientation, total = number of retained records, independent of record order and of the sort flag of the aggregation (the unsorted grouping stores exactly the same cells, in order of first appearance); one-based input is the zero-based input shifted by one; positions < 0 or > length are rejected. Full rejection at position == length is NOT proved: recorded finding D13 with a machine-checked witness, matched narrowly by Lean's atLength predicate and the variant oracle.",
            "Trusted: Lean kernel; model tied by correspondence; pandas Categorical/searchsorted and pysam fetch are primitives; PairixAggregator not modelled (pypairix absent)."),
    "C08": ("DESIGN.md §5 C08",
            "Lean 4 theorems (coarsenBins_spec, cmap_monotone, rebin_correct via C20.getBinsize_truthful, prune_contract, no_group_split, coarsen_eq_spec for ANY contract-satisfying spans, coarsen_total, coarsen_compose, coarsen_merge_commute, coarsen_map_independent) + exhaustive (k, chunksize) differential correspondence with coarsen_cooler",
            "Proof: every new bin is the union of k consecutive old bins of one chromosome (last group shorter), re-binning through the new table equals the block map on fixed and variable tables, span boundaries never split a coarse row, and for any valid spans and any order-preserving map the stream concatenates to groupSum of the relabelled pixels; totals preserved; coarsening composes and commutes with merging. Real coarsen_cooler is run for k=2..n+1 and every chunk size 1..nnz+1 on small coolers, chains and merge/coarsen interleavings.",
            "Trusted: Lean kernel; model tied by correspondence; real process pools observed for <=4 workers; pandas groupby primitives; any aggregation function covered by coarsen_agg_eq_spec on integer columns."),
    "C09": ("DESIGN.md §5 C09",
            "Lean 4 theorems (multseq_sorted_once, multseq_sound, multseq_refuses_iff(_bases), chain_to_base, zoom_level_eq_direct for ANY valid multiplier sequence via C08.coarsen_compose, zoom_layout, zoomify_file(_prior), expandSpec_*, expandSpec_perm, legacy_level_eq_direct, quadtreeDepth_spec) + differential correspondence with zoomify_cooler over target sets, bin sizes of any magnitude, one to three bases, CLI spellings, repeated runs on one output path and the legacy quad-tree producer",
            "Proof: the multiplier sequence is the strictly sorted union, is refused exactly when some requested resolution is not a multiple of any base, every predecessor chain ends at a base with the product of multipliers r/base, hence every derived level equals direct coarsening of a base by r/base whatever chain was used; bases are copies; the listing is exactly /resolutions/<r>. Real zoomify output is compared level by level (base levels byte-for-byte with their sources).",
            "Trusted: Lean kernel; model tied by correspondence; is_multires_file by correspondence only; resolutions positive integers."),
    "C16": ("DESIGN.md §5 C16",
            "Lean 4 theorems (columns_any_layout, dump_eq_query, dump_option_effect (one theorem per option), load_dump_coo, load_dump_bg2, pairs_layout_independent, parseFieldParam_spec) + CLI differential correspondence over all 128 dump option combinations, dump->load round trips and all column layouts",
            "Proof: for every injective layout the parsed field f is the line's column col f (formal content of fix D12); dump rows are the annotator mapped over the library query (C03 engines, C12 balanced cell); each dump option has its documented effect and no other; loading dumped COO/BG2 records in any order and chunking reproduces the stored table. cloadPairs = pairsSpec for every layout, value field and cutting into reader chunks (cloadPairs_eq_spec, via the groupSum extensionality principle).",
            "Trusted: Lean kernel; model tied by correspondence; character-level CSV parsing/formatting and float formatting are pandas primitives."),
    "C15": ("DESIGN.md §5 C15",
            "Lean 4 theorems over a flat path->entry HDF5 file model with an invariant WF preserved by every operation (copy_reads_equal, copy_frame, mv_frame, mv_source_gone_partial, list_exact_history, list_exact_soft_history, isCooler_total, create_append_frame, create_w_replaces, recreate_replaces) + exhaustive short histories and seeded random histories against real files",
            "Proof: after a successful cp/ln/ln -s the destination reads what the source read; whatever the outcome only the destination file changes and nothing outside the destination's footprint (and the source for mv) changes; same-file mv removes the source; listing is exact for link-free files after any history, and after any history with at most 7 same-file soft links (the link-nesting bound is an invariant of histories: C15Depth); the recognition test is total; append-mode creation keeps all other collections and unrelated attributes, write mode replaces the file, re-creation replaces the collection. D4 (cross-file mv keeps the source) and D5 (external links listed under the target's path) are recorded findings proved as theorems about the model of the current code and matched through variant oracles.",
            "Trusted: Lean kernel; model tied by correspondence; HDF5 link resolution/Group.copy are primitives of the file model; some h5py corners end a history without a verdict (counted). Self-nesting mv/ln (repaired D26) refused with no effect."),
    "C04": ("DESIGN.md §5 C04",
            "Lean 4 theorems (extent_var_correct, extent_fixed_correct, extent_fixed_sound via C20.getBinsize_truthful, extent_empty_*, shortest_cover, gsFetch_correct, parseRegion_bounds, extent_table_correct, pixelsFetch_correct) + exhaustive all-regions differential correspondence on every small segmentation",
            "Proof: on every valid table, for every chromosome and every range 0<=s<e<=L the selected run is exactly the bins overlapping the range (never a bin of another chromosome), on the variable path by searchsorted lemmas and on the fixed path by uniformity, which a reported bin size guarantees; empty ranges select at most the bin containing the position; the pixel fetch is the index slice on the extent; GenomeSegmentation.fetch/bedslice select the same set. Every region of every small table is run through extent/offset/bins.fetch/pixels.fetch/matrix.fetch and judged by Lean.",
            "Trusted: Lean kernel; model tied by correspondence; float64 division for floor/ceil idealised as integer division (sampled up to 2^40); numpy searchsorted primitive."),
}

NOT_YET = {}

props = [json.loads(l) for l in open(os.path.join(HERE, "properties.jsonl"))]
checks, na = [], []
for p in props:
    pid = p["id"]
    if pid in CLAIMED:
        ref, tech, text, note = CLAIMED[pid]
        checks.append({
            "property_id": pid,
            "quick_cmd": f"./check {pid} quick",
            "thorough_cmd": f"./check {pid} thorough",
            "evidence_file": f"/verif/evidence/{pid}.json",
            "replay_cmd_template": f"./check {pid} --replay {{path}}",
            "engine": "lean-proof+correspondence",
            "level_claimed": {"category": "proof", "text": text, "design_ref": ref},
            "level_note": note,
            "technique": tech,
        })
    else:
        na.append({"property_id": pid, "reason": NOT_YET.get(pid, "check not built yet in this round (machinery under construction; see DESIGN.md §10 build order)")})

man = {
    "version": 1,
    "setup_cmd": "cd lean && lake build driver " + " ".join(f"CoolerModel.Props.{p}" for p in sorted(CLAIMED)),
    "hooks": {
        "guard": "COOLER_VERIF",
        "enable": "no source hooks are needed: the harness imports /repo/src directly (PYTHONPATH) and observes through public API, module-level functions and raw HDF5; COOLER_VERIF=1 is exported by ./check for completeness",
        "baseline_off_cmd": "cd /repo && /venv/bin/python -m pytest -ra -q -p no:cacheprovider --timeout=900 --continue-on-collection-errors",
        "source_commits": [],
        "add_only": True,
    },
    "engines": [{
        "name": "lean-proof+correspondence",
        "path": "/verif/lean (model, theorems, driver) + /verif/harness (differential correspondence against /repo/src)",
        "serves_properties": sorted(CLAIMED),
        "kind_free_text": "Machine-checked Lean 4 theorems about a hand-written executable model; the model's definitions are run by a compiled driver against the real implementation on enumerated and generated inputs",
    }],
    "checks": checks,
    "not_applicable": na,
    "notes": "exit 2 = infrastructure failure (Lean build/audit or harness crash), never a verdict. Known findings: /verif/known_findings.json.",
}
json.dump(man, open(os.path.join(HERE, "MANIFEST.json"), "w"), indent=1)
print(f"{len(checks)} claimed, {len(na)} not claimed")
