#!/venv/bin/python
"""tools/coverage_map.py [tier] [Cxx ...]

Which lines of /repo/src/cooler does the correspondence of each property EXECUTE?  (A line the correspondence
never runs is a line where the model is not tied to the code: a change there cannot be seen.)  Runs every
claimed check under coverage.py (branch coverage, fork-pool aware), then writes

  /verif/coverage/<Cxx>.json    per property: executed/missing statements and partial branches inside the
                                property's anchored line ranges (properties.jsonl), and over the whole package
  /verif/coverage/summary.json  union over all properties, per source file, plus the never-executed lines
  /verif/coverage/SUMMARY.md    the same, readable

This is a measurement of the correspondence leg, not a check: it never raises an alarm.  Scratch data lives
under $TMPDIR/covmap and is removed at the end.
"""
import json
import os
import re
import shutil
import subprocess
import sys
import tempfile

VERIF = os.path.dirname(os.path.dirname(os.path.abspath(__file__)))
REPO = os.environ.get("COOLER_REPO", "/repo")
SRC = os.path.join(REPO, "src", "cooler")
OUT = os.path.join(VERIF, "coverage")


def anchors():
    res = {}
    for line in open(os.path.join(VERIF, "properties.jsonl")):
        p = json.loads(line)
        rngs = []
        for m in p["anchors"]["mechanism"]:
            for part in m["where"].split(";"):
                part = part.strip()
                mm = re.match(r"(\S+?):([\d,\-]+)$", part)
                if not mm or not mm.group(1).endswith(".py"):
                    continue
                for r in mm.group(2).split(","):
                    a, _, b = r.partition("-")
                    rngs.append((mm.group(1), int(a), int(b or a), m["name"]))
        res[p["id"]] = rngs
    return res


_LINEMAP = {}


def to_head(rel, line):
    """anchors name lines of the PINNED commit; map a line to the working tree (repairs shifted the files)"""
    import difflib
    if rel not in _LINEMAP:
        base = subprocess.run(["git", "-C", REPO, "rev-list", "--max-parents=0", "HEAD"], capture_output=True, text=True).stdout.split()[0]
        old = subprocess.run(["git", "-C", REPO, "show", f"{base}:{rel}"], capture_output=True, text=True).stdout.splitlines()
        try:
            new = open(os.path.join(REPO, rel)).read().splitlines()
        except OSError:
            new = old
        m = {}
        for tag, i1, i2, j1, j2 in difflib.SequenceMatcher(None, old, new, autojunk=False).get_opcodes():
            for k in range(i2 - i1):
                m[i1 + k + 1] = j1 + min(k, max(j2 - j1 - 1, 0)) + 1
        _LINEMAP[rel] = m
    return _LINEMAP[rel].get(line, line)


def run_one(pid, tier, scratch):
    d = os.path.join(scratch, pid)
    os.makedirs(d, exist_ok=True)
    rc = os.path.join(d, "covrc")
    with open(rc, "w") as f:
        f.write(
            "[run]\nbranch = True\nparallel = True\nconcurrency = multiprocessing\nsigterm = True\n"
            f"source = {SRC}\ndata_file = {d}/.coverage\n"
        )
    env = dict(os.environ)
    env.update(
        PYTHONPATH=f"{VERIF}:{REPO}/src", COOLER_VERIF="1", PYTHONDONTWRITEBYTECODE="1", OMP_NUM_THREADS="1",
        OPENBLAS_NUM_THREADS="1", MKL_NUM_THREADS="1", VERIF_OUT=os.path.join(d, "out"),
        COVERAGE_RCFILE=rc,
    )
    env.setdefault("VERIF_NPROC", "8")
    p = subprocess.run(
        ["/venv/bin/python", "-m", "coverage", "run", f"--rcfile={rc}", "-m", "harness.run", pid, tier],
        cwd=VERIF, env=env, capture_output=True, text=True,
    )
    tail = (p.stdout.strip().splitlines() or [""])[-1]
    subprocess.run(["/venv/bin/python", "-m", "coverage", "combine", f"--rcfile={rc}"], cwd=d, env=env,
                   capture_output=True)
    js = os.path.join(d, "cov.json")
    subprocess.run(["/venv/bin/python", "-m", "coverage", "json", f"--rcfile={rc}", "-o", js], cwd=d, env=env,
                   capture_output=True)
    return p.returncode, tail, js


def main():
    args = sys.argv[1:]
    tier = args[0] if args and args[0] in ("quick", "thorough") else "quick"
    pids = [a for a in args if re.match(r"C\d\d$", a)]
    man = json.load(open(os.path.join(VERIF, "MANIFEST.json")))
    pids = pids or [c["property_id"] for c in man["checks"]]
    anc = anchors()
    scratch = tempfile.mkdtemp(prefix="covmap-")
    os.makedirs(OUT, exist_ok=True)
    union_exec, stmts = {}, {}
    try:
        from concurrent.futures import ThreadPoolExecutor
        with ThreadPoolExecutor(2) as ex:
            futs = {pid: ex.submit(run_one, pid, tier, scratch) for pid in pids}
        for pid in pids:
            rc, tail, js = futs[pid].result()
            if not os.path.exists(js):
                print(pid, "no coverage data", rc, tail)
                continue
            cov = json.load(open(js))["files"]
            rec = {"property": pid, "tier": tier, "check_exit": rc, "check_summary": tail, "anchors": [], "files": {}}
            for fn, d in cov.items():
                rel = os.path.relpath(fn, REPO)
                ex_l, mi_l = set(d["executed_lines"]), set(d["missing_lines"])
                stmts[rel] = ex_l | mi_l
                union_exec.setdefault(rel, set()).update(ex_l)
                rec["files"][rel] = {"executed": len(ex_l), "statements": len(ex_l | mi_l)}
            for rel, a, b, name in anc.get(pid, []):
                a, b = to_head(rel, a), to_head(rel, b)
                d = cov.get(os.path.join(REPO, rel))
                if d is None:
                    continue
                ex_l = [x for x in d["executed_lines"] if a <= x <= b]
                mi_l = [x for x in d["missing_lines"] if a <= x <= b]
                br = [x for x in d.get("missing_branches", []) if a <= abs(x[0]) <= b]
                rec["anchors"].append({"mechanism": name, "file": rel, "lines": [a, b], "executed": len(ex_l),
                                       "missing_lines": mi_l, "missing_branches": br})
            json.dump(rec, open(os.path.join(OUT, pid + ".json"), "w"), indent=1)
            tot_e = sum(x["executed"] for x in rec["anchors"]); tot_m = sum(len(x["missing_lines"]) for x in rec["anchors"])
            print(f"{pid}: anchored statements executed {tot_e}/{tot_e + tot_m}; exit {rc}")
        summ = {"tier": tier, "files": {}}
        for rel in sorted(stmts):
            never = sorted(stmts[rel] - union_exec.get(rel, set()))
            summ["files"][rel] = {"statements": len(stmts[rel]), "executed_by_some_check": len(stmts[rel]) - len(never),
                                  "never_executed": never}
        if set(pids) >= {c["property_id"] for c in man["checks"]}:
            json.dump(summ, open(os.path.join(OUT, "summary.json"), "w"), indent=1)
            with open(os.path.join(OUT, "SUMMARY.md"), "w") as f:
                f.write(f"# Statements of src/cooler executed by the correspondence ({tier} tier, all properties)\n\n")
                f.write("| file | statements | executed by some check | never executed (lines) |\n|---|---|---|---|\n")
                for rel, d in summ["files"].items():
                    nv = d["never_executed"]
                    f.write(f"| {rel} | {d['statements']} | {d['executed_by_some_check']} | {compact(nv)} |\n")
    finally:
        shutil.rmtree(scratch, ignore_errors=True)


def compact(xs):
    out, i = [], 0
    while i < len(xs):
        j = i
        while j + 1 < len(xs) and xs[j + 1] <= xs[j] + 2:
            j += 1
        out.append(str(xs[i]) if i == j else f"{xs[i]}-{xs[j]}")
        i = j + 1
    return " ".join(out)


if __name__ == "__main__":
    main()
