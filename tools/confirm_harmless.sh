#!/bin/bash
# tools/confirm_harmless.sh <PROP> <k> <dir-with-patch.diff-notes.md[-equiv.py]> [checks...]
# A behaviour-preserving rewrite of cooler (false-alarm probe): applies the patch on a scratch worktree of /repo HEAD, runs
# the pinned suite, the author's equivalence digest (clean vs patched) and the checks of every property whose anchor files
# the patch touches (or the named checks); every check is expected to exit 0. Writes /verif/harmless/<PROP>-h<k>/.
set -u
PROP=$1; K=$2; SRC=$3; shift 3
ID=$PROP-h$K
WT=/tmp/ch-$ID
OUT=/verif/harmless/$ID
mkdir -p $OUT
cp $SRC/patch.diff $OUT/ ; [ -f $SRC/notes.md ] && cp $SRC/notes.md $OUT/; [ -f $SRC/equiv.py ] && cp $SRC/equiv.py $OUT/
git -C /repo worktree remove --force $WT 2>/dev/null
git -C /repo worktree add -q --detach $WT HEAD || exit 3
HEADSHA=$(git -C /repo rev-parse --short HEAD)
cd $WT
export TMPDIR=/tmp/ch-tmp-$ID; mkdir -p $TMPDIR
EQ=null
if [ -f $OUT/equiv.py ]; then timeout 900 /venv/bin/python $OUT/equiv.py $WT > $TMPDIR/eq_clean.txt 2>&1; fi
if ! git apply $OUT/patch.diff 2> $OUT/apply.err; then echo "APPLY FAILED"; cat $OUT/apply.err; fi
if [ -f $OUT/equiv.py ]; then
  timeout 900 /venv/bin/python $OUT/equiv.py $WT > $TMPDIR/eq_patched.txt 2>&1
  # (lines in which the author's script reports its own wall time are not results)
  grep -v -E '^\[[A-Za-z ]+:? ?[0-9.]+ ?s\]$' $TMPDIR/eq_clean.txt > $TMPDIR/eq_clean.f; grep -v -E '^\[[A-Za-z ]+:? ?[0-9.]+ ?s\]$' $TMPDIR/eq_patched.txt > $TMPDIR/eq_patched.f
  mv $TMPDIR/eq_clean.f $TMPDIR/eq_clean.txt; mv $TMPDIR/eq_patched.f $TMPDIR/eq_patched.txt
  if cmp -s $TMPDIR/eq_clean.txt $TMPDIR/eq_patched.txt; then EQ='"identical"'; else EQ='"DIFFERENT"'; diff $TMPDIR/eq_clean.txt $TMPDIR/eq_patched.txt | head -20 > $OUT/equiv_diff.txt; fi
  tail -3 $TMPDIR/eq_clean.txt > $OUT/equiv_clean_tail.txt
fi
CHECKS=${@:-$(python3 - $OUT/patch.diff $PROP <<'PY'
import sys, json, re
touched = set(re.findall(r'^\+\+\+ b/(\S+)', open(sys.argv[1]).read(), re.M))
out = {sys.argv[2]}
for l in open('/verif/properties.jsonl'):
    p = json.loads(l)
    if touched & set(p['anchors']['files']):
        out.add(p['id'])
print(" ".join(sorted(out)))
PY
)}
( cd $WT && env -u COOLER_VERIF PYTHONPATH=$WT/src /venv/bin/python -m pytest -q -p no:cacheprovider --timeout=900 --continue-on-collection-errors --junitxml=$TMPDIR/junit.xml > $TMPDIR/suite.log 2>&1 )
SUITE=$(python3 - $TMPDIR/junit.xml $WT <<'PY'
import sys, json, xml.etree.ElementTree as ET
base = set(json.load(open('/root/.vp/BASELINE.json'))['stable_pass'])
ok = set()
for tc in ET.parse(sys.argv[1]).getroot().iter('testcase'):
    if not any(c.tag in ('failure', 'error', 'skipped') for c in tc):
        ok.add(f"{tc.get('classname')}::{tc.get('name')}".replace(sys.argv[2], "/repo"))
print(json.dumps({"baseline": len(base), "passing": len(base & ok), "missing": sorted(base - ok)}))
PY
)
cd /verif
declare -A R
for C in $CHECKS; do
  COOLER_REPO=$WT VERIF_OUT=$TMPDIR/out ./check $C quick > $TMPDIR/check-$C.txt 2>&1; EC=$?
  R[$C]=$EC
  if [ $EC -ne 0 ]; then
    grep -h "VIOLATION\|INFRA" $TMPDIR/check-$C.txt | head -5 > $OUT/check-$C.txt
    tail -1 $TMPDIR/check-$C.txt >> $OUT/check-$C.txt
    for f in $TMPDIR/out/replays/$C-*.json; do [ -f "$f" ] && python3 - "$f" >> $OUT/check-$C.txt <<'PY'
import json,sys
r=json.load(open(sys.argv[1])); print("REPLAY", json.dumps({k:r[k] for k in r if k in ("check","level","case","result","found_by","broken")})[:2500])
PY
    done
  else rm -f $OUT/check-$C.txt
  fi
done
python3 - <<PY
import json
r={"id":"$ID","property_area":"$PROP","repo_head":"$HEADSHA","equiv_digest":$EQ,"suite":$SUITE,
   "checks":{$(for C in $CHECKS; do echo "\"$C\": ${R[$C]},"; done)},
   "commands":["git -C /repo worktree add --detach $WT HEAD; git apply patch.diff","python equiv.py <tree> (clean vs patched output compared)","pytest (pinned suite, PYTHONPATH=<tree>/src)","COOLER_REPO=<tree> ./check <Cxx> quick for every property whose anchor files the patch touches"]}
json.dump(r,open("$OUT/confirm.json","w"),indent=1)
print(json.dumps(r))
PY
git -C /repo worktree remove --force $WT
rm -rf $TMPDIR
